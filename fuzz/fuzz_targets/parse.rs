#![no_main]
// Raw packets: C01 (total), C02 (differential verdict), and on accepted inputs C03 (walks),
// C04 (summaries), C05 (decompression), C18 (step bound).
use libfuzzer_sys::fuzz_target;
fuzz_target!(|data: &[u8]| {
    if let Err(f) = dnsverif::fuzzing::parse_target(data) {
        panic!("PROPERTY-VIOLATION {}\n{}", f.sig, f.detail);
    }
});

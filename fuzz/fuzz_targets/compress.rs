#![no_main]
// Choice strings decoded by the harness generators; same oracles as the proptest checks.
use libfuzzer_sys::fuzz_target;
fuzz_target!(|data: &[u8]| {
    if let Err(f) = dnsverif::fuzzing::compress_target(data) {
        panic!("PROPERTY-VIOLATION {}\n{}", f.sig, f.detail);
    }
});

/*
 * C hook-script interpreter for property C15.
 *
 * Compiled at check time by the system C compiler against the header shipped
 * with the library (/repo/src/bin/c_hook/c_hook.h) with -Wall -Werror, so the
 * order, count and signatures of the FnTable entries used here are exactly the
 * ones a real hook sees.  The harness hands it &fn_table(), a ParsedPacket and
 * a script; every table call is appended to a textual trace which the harness
 * compares with the trace of a native Rust twin interpreting the same script.
 *
 * Every out-buffer lives inside a canary-filled arena; a write outside the
 * documented extent is reported in the trace as "CANARY ...", which the native
 * trace never contains.
 */
#include <stdarg.h>
#include <stdio.h>
#include <string.h>

#include "c_hook.h"

#define CANARY 0xA7
#define PAD 64

typedef struct Trace {
    char  *buf;
    size_t cap;
    size_t len;
    int    overflow;
} Trace;

static void
tr(Trace *t, const char *fmt, ...)
{
    va_list ap;
    int     n;

    if (t->len + 1 >= t->cap) {
        t->overflow = 1;
        return;
    }
    va_start(ap, fmt);
    n = vsnprintf(t->buf + t->len, t->cap - t->len, fmt, ap);
    va_end(ap);
    if (n < 0 || (size_t) n >= t->cap - t->len) {
        t->overflow = 1;
        t->len      = t->cap - 1;
        return;
    }
    t->len += (size_t) n;
}

static void
tr_hex(Trace *t, const uint8_t *p, size_t n)
{
    size_t i;
    for (i = 0; i < n; i++) {
        tr(t, "%02x", p[i]);
    }
}

static int
all_canary(const uint8_t *p, size_t n)
{
    size_t i;
    for (i = 0; i < n; i++) {
        if (p[i] != CANARY) {
            return 0;
        }
    }
    return 1;
}

typedef struct Reader {
    const uint8_t *p;
    size_t         len;
    size_t         pos;
    int            bad;
} Reader;

static uint8_t
rd8(Reader *r)
{
    if (r->pos + 1 > r->len) {
        r->bad = 1;
        return 0;
    }
    return r->p[r->pos++];
}

static uint16_t
rd16(Reader *r)
{
    uint16_t a = rd8(r);
    uint16_t b = rd8(r);
    return (uint16_t) (a | (b << 8));
}

static uint32_t
rd32(Reader *r)
{
    uint32_t a = rd16(r);
    uint32_t b = rd16(r);
    return a | (b << 16);
}

static const uint8_t *
rdblob(Reader *r, size_t *len)
{
    const uint8_t *p;
    size_t         n = rd16(r);
    if (r->bad || r->pos + n > r->len) {
        r->bad = 1;
        *len   = 0;
        return r->p;
    }
    p = r->p + r->pos;
    r->pos += n;
    *len = n;
    return p;
}

typedef struct CbCtx {
    const FnTable *t;
    Trace         *tr;
    const uint8_t *prog;
    size_t         prog_len;
    int            sec;
    unsigned       idx;
} CbCtx;

static void
trace_err(CbCtx *c, const CErr *err)
{
    const char *d = c->t->error_description(err);
    size_t      n = strnlen(d, 4096);
    tr(c->tr, " err=");
    tr_hex(c->tr, (const uint8_t *) d, n);
}

static bool
rr_cb(void *ctx_, void *it)
{
    CbCtx  *c = ctx_;
    Reader  r;
    int     deleted = 0;
    bool    stop    = false;
    uint8_t arena[PAD + 256 + PAD];

    r.p   = c->prog;
    r.len = c->prog_len;
    r.pos = 0;
    r.bad = 0;
    tr(c->tr, "cb sec=%d idx=%u\n", c->sec, c->idx);
    while (r.pos < r.len && !r.bad) {
        uint8_t at  = rd8(&r);
        uint8_t op  = rd8(&r);
        int     run = (at == 0xff || at == c->idx);
        switch (op) {
        case 0x21: /* name */
            if (run && !deleted) {
                char  *name = (char *) arena + PAD;
                size_t n;
                memset(arena, CANARY, sizeof arena);
                c->t->name(it, name);
                if (!all_canary(arena, PAD) || !all_canary(arena + PAD + 256, PAD)) {
                    tr(c->tr, "CANARY name wrote outside its 256 bytes\n");
                }
                n = strnlen(name, 256);
                if (n >= 256) {
                    tr(c->tr, "CANARY name not NUL-terminated within 256 bytes\n");
                    n = 255;
                }
                tr(c->tr, " name=");
                tr_hex(c->tr, (const uint8_t *) name, n);
                tr(c->tr, "\n");
            }
            break;
        case 0x22:
            if (run && !deleted) {
                tr(c->tr, " rr_type=%u\n", (unsigned) c->t->rr_type(it));
            }
            break;
        case 0x23:
            if (run && !deleted) {
                tr(c->tr, " rr_class=%u\n", (unsigned) c->t->rr_class(it));
            }
            break;
        case 0x24:
            if (run && !deleted) {
                tr(c->tr, " rr_ttl=%u\n", (unsigned) c->t->rr_ttl(it));
            }
            break;
        case 0x25: {
            uint32_t ttl = rd32(&r);
            if (run && !deleted && !r.bad) {
                c->t->set_rr_ttl(it, ttl);
                tr(c->tr, " set_rr_ttl=%u\n", (unsigned) ttl);
            }
            break;
        }
        case 0x26: /* rr_ip, only on A/AAAA (documented precondition) */
            if (run && !deleted) {
                uint16_t ty = c->t->rr_type(it);
                if (ty == 1 || ty == 28) {
                    uint8_t *addr = arena + PAD;
                    size_t   len  = 200; /* capacity of a (larger) caller buffer: the call must set the length */
                    size_t   want = ty == 1 ? 4 : 16;
                    memset(arena, CANARY, sizeof arena);
                    c->t->rr_ip(it, addr, &len);
                    if (len != want) {
                        tr(c->tr, "CANARY rr_ip length %zu\n", len);
                    }
                    if (!all_canary(arena, PAD) || !all_canary(addr + want, 256 - want + PAD)) {
                        tr(c->tr, "CANARY rr_ip wrote outside %zu bytes\n", want);
                    }
                    tr(c->tr, " rr_ip len=%zu addr=", len);
                    tr_hex(c->tr, addr, len <= 16 ? len : 16);
                    tr(c->tr, "\n");
                }
            }
            break;
        case 0x27: { /* set_rr_ip, only on A/AAAA with the matching family */
            uint8_t ip[16];
            int     i;
            for (i = 0; i < 16; i++) {
                ip[i] = rd8(&r);
            }
            if (run && !deleted && !r.bad) {
                uint16_t ty = c->t->rr_type(it);
                if (ty == 1 || ty == 28) {
                    size_t n = ty == 1 ? 4 : 16;
                    c->t->set_rr_ip(it, ip, n);
                    tr(c->tr, " set_rr_ip n=%zu\n", n);
                }
            }
            break;
        }
        case 0x28: { /* set_raw_name */
            size_t         n;
            const uint8_t *raw = rdblob(&r, &n);
            if (run && !r.bad) {
                const CErr *err = NULL;
                int         rc  = c->t->set_raw_name(it, &err, raw, n);
                tr(c->tr, " set_raw_name rc=%d", rc);
                if (rc != 0 && err != NULL) {
                    trace_err(c, err);
                }
                tr(c->tr, "\n");
            }
            break;
        }
        case 0x29: { /* set_name */
            size_t         n, zn;
            const uint8_t *name = rdblob(&r, &n);
            const uint8_t *zone = rdblob(&r, &zn);
            if (run && !r.bad) {
                const CErr *err = NULL;
                int         rc  = c->t->set_name(it, &err, (const char *) name, n, zn == 0 ? NULL : zone, zn);
                tr(c->tr, " set_name rc=%d", rc);
                if (rc != 0 && err != NULL) {
                    trace_err(c, err);
                }
                tr(c->tr, "\n");
            }
            break;
        }
        case 0x2c: { /* set_name with a non-NULL, zero-length default zone (= no zone) */
            size_t         n;
            const uint8_t *name = rdblob(&r, &n);
            if (run && !r.bad) {
                static const uint8_t empty_zone[1] = { 0 };
                const CErr          *err          = NULL;
                int                  rc           = c->t->set_name(it, &err, (const char *) name, n, empty_zone, 0);
                tr(c->tr, " set_name rc=%d", rc);
                if (rc != 0 && err != NULL) {
                    trace_err(c, err);
                }
                tr(c->tr, "\n");
            }
            break;
        }
        case 0x2a: /* delete_rr */
            if (run) {
                const CErr *err = NULL;
                int         rc  = c->t->delete_rr(it, &err);
                tr(c->tr, " delete_rr rc=%d", rc);
                if (rc != 0 && err != NULL) {
                    trace_err(c, err);
                }
                tr(c->tr, "\n");
                if (rc == 0) {
                    deleted = 1;
                }
            }
            break;
        case 0x2b:
            if (run) {
                stop = true;
                tr(c->tr, " stop\n");
            }
            break;
        default:
            r.bad = 1;
            break;
        }
    }
    c->idx++;
    return stop;
}

static bool
edns_cb(void *ctx_, void *it)
{
    CbCtx *c = ctx_;
    (void) it;
    tr(c->tr, "edns cb idx=%u\n", c->idx);
    c->idx++;
    /* program: a single byte = index at which to stop, 0xff = never */
    return c->prog_len > 0 && c->prog[0] != 0xff && c->idx > c->prog[0];
}

uint64_t
header_abi_version(void)
{
    return DNSSECTOR_ABI_VERSION;
}

size_t
header_fn_table_size(void)
{
    return sizeof(FnTable);
}

size_t
run_script(const FnTable *t, ParsedPacket *pp, const uint8_t *script, size_t script_len, char *trace, size_t trace_cap)
{
    static uint8_t pkt_arena[PAD + DNS_MAX_PACKET_SIZE + PAD];
    uint8_t        arena[PAD + 256 + PAD];
    Trace          trc;
    Reader         r;
    CbCtx          c;

    trc.buf      = trace;
    trc.cap      = trace_cap;
    trc.len      = 0;
    trc.overflow = 0;
    r.p          = script;
    r.len        = script_len;
    r.pos        = 0;
    r.bad        = 0;
    c.t          = t;
    c.tr         = &trc;
    tr(&trc, "abi=%llu header_abi=%llu\n", (unsigned long long) t->abi_version, (unsigned long long) DNSSECTOR_ABI_VERSION);
    while (r.pos < r.len && !r.bad) {
        uint8_t op = rd8(&r);
        switch (op) {
        case 0x01:
            tr(&trc, "flags=%u\n", (unsigned) t->flags(pp));
            break;
        case 0x02: {
            uint32_t v = rd32(&r);
            if (!r.bad) {
                t->set_flags(pp, v);
                tr(&trc, "set_flags=%u\n", (unsigned) v);
            }
            break;
        }
        case 0x03:
            tr(&trc, "rcode=%u\n", (unsigned) t->rcode(pp));
            break;
        case 0x04: {
            uint8_t v = rd8(&r);
            if (!r.bad) {
                t->set_rcode(pp, v);
                tr(&trc, "set_rcode=%u\n", (unsigned) v);
            }
            break;
        }
        case 0x05:
            tr(&trc, "opcode=%u\n", (unsigned) t->opcode(pp));
            break;
        case 0x06: {
            uint8_t v = rd8(&r);
            if (!r.bad) {
                t->set_opcode(pp, v);
                tr(&trc, "set_opcode=%u\n", (unsigned) v);
            }
            break;
        }
        case 0x07: { /* question */
            char    *name = (char *) arena + PAD;
            uint16_t ty   = 0xeeee;
            int      rc;
            size_t   n;
            memset(arena, CANARY, sizeof arena);
            rc = t->question(pp, name, &ty);
            if (!all_canary(arena, PAD) || !all_canary(arena + PAD + 256, PAD)) {
                tr(&trc, "CANARY question wrote outside its 256 bytes\n");
            }
            n = strnlen(name, 256);
            if (n >= 256) {
                tr(&trc, "CANARY question name not NUL-terminated within 256 bytes\n");
                n = 255;
            }
            tr(&trc, "question rc=%d type=%u name=", rc, (unsigned) ty);
            tr_hex(&trc, (const uint8_t *) name, n);
            tr(&trc, "\n");
            break;
        }
        case 0x08: { /* raw_packet */
            size_t   max_len = rd16(&r);
            size_t   len     = 0xdddd;
            uint8_t *buf     = pkt_arena + PAD;
            int      rc;
            if (r.bad) {
                break;
            }
            if (max_len > DNS_MAX_PACKET_SIZE) {
                max_len = DNS_MAX_PACKET_SIZE;
            }
            memset(pkt_arena, CANARY, sizeof pkt_arena);
            rc = t->raw_packet(pp, buf, &len, max_len);
            if (rc != 0) {
                if (!all_canary(pkt_arena, sizeof pkt_arena)) {
                    tr(&trc, "CANARY raw_packet wrote although it reported failure\n");
                }
                tr(&trc, "raw_packet max=%zu rc=%d\n", max_len, rc);
            } else {
                if (len > max_len) {
                    tr(&trc, "CANARY raw_packet length %zu beyond capacity %zu\n", len, max_len);
                    len = max_len;
                }
                if (!all_canary(pkt_arena, PAD) || !all_canary(buf + len, DNS_MAX_PACKET_SIZE - len + PAD)) {
                    tr(&trc, "CANARY raw_packet wrote outside %zu bytes\n", len);
                }
                tr(&trc, "raw_packet max=%zu rc=%d len=%zu bytes=", max_len, rc, len);
                tr_hex(&trc, buf, len);
                tr(&trc, "\n");
            }
            break;
        }
        case 0x09: { /* add_to_<section> */
            uint8_t        sec = rd8(&r);
            size_t         n;
            const uint8_t *text = rdblob(&r, &n);
            const CErr    *err  = NULL;
            int            rc;
            if (r.bad || n == 0 || text[n - 1] != 0) {
                r.bad = 1;
                break;
            }
            switch (sec) {
            case 0:
                rc = t->add_to_question(pp, &err, (const char *) text);
                break;
            case 1:
                rc = t->add_to_answer(pp, &err, (const char *) text);
                break;
            case 2:
                rc = t->add_to_nameservers(pp, &err, (const char *) text);
                break;
            default:
                rc = t->add_to_additional(pp, &err, (const char *) text);
                break;
            }
            tr(&trc, "add sec=%u rc=%d", (unsigned) sec, rc);
            if (rc != 0 && err != NULL) {
                c.tr = &trc;
                trace_err(&c, err);
            }
            tr(&trc, "\n");
            break;
        }
        case 0x0a: { /* rename_with_raw_names */
            uint8_t        suffix = rd8(&r);
            size_t         tn, sn;
            const uint8_t *target = rdblob(&r, &tn);
            const uint8_t *source = rdblob(&r, &sn);
            const CErr    *err    = NULL;
            int            rc;
            if (r.bad) {
                break;
            }
            rc = t->rename_with_raw_names(pp, &err, target, tn, source, sn, suffix != 0);
            tr(&trc, "rename rc=%d", rc);
            if (rc != 0 && err != NULL) {
                trace_err(&c, err);
            }
            tr(&trc, "\n");
            break;
        }
        case 0x0b: { /* raw_name_from_str */
            size_t         n;
            const uint8_t *name = rdblob(&r, &n);
            uint8_t       *raw  = arena + PAD;
            size_t         len  = 0xdddd;
            const CErr    *err  = NULL;
            int            rc;
            if (r.bad) {
                break;
            }
            memset(arena, CANARY, sizeof arena);
            rc = t->raw_name_from_str(raw, &len, &err, (const char *) name, n);
            if (!all_canary(arena, PAD) || !all_canary(arena + PAD + 256, PAD)) {
                tr(&trc, "CANARY raw_name_from_str wrote outside its 256 bytes\n");
            }
            if (rc == 0) {
                if (len > 256) {
                    tr(&trc, "CANARY raw_name_from_str length %zu\n", len);
                    len = 256;
                }
                if (!all_canary(raw + len, 256 - len)) {
                    tr(&trc, "CANARY raw_name_from_str wrote beyond the reported length\n");
                }
                tr(&trc, "raw_name_from_str rc=0 raw=");
                tr_hex(&trc, raw, len);
            } else {
                tr(&trc, "raw_name_from_str rc=%d", rc);
                if (err != NULL) {
                    trace_err(&c, err);
                }
            }
            tr(&trc, "\n");
            break;
        }
        case 0x0c: { /* iter_<section> */
            uint8_t sec = rd8(&r);
            size_t  n;
            c.prog     = rdblob(&r, &n);
            c.prog_len = n;
            c.sec      = sec;
            c.idx      = 0;
            if (r.bad) {
                break;
            }
            tr(&trc, "iter sec=%u\n", (unsigned) sec);
            switch (sec) {
            case 1:
                t->iter_answer(pp, rr_cb, &c);
                break;
            case 2:
                t->iter_nameservers(pp, rr_cb, &c);
                break;
            case 3:
                t->iter_additional(pp, rr_cb, &c);
                break;
            default:
                t->iter_edns(pp, edns_cb, &c);
                break;
            }
            tr(&trc, "iter end calls=%u\n", c.idx);
            break;
        }
        default:
            r.bad = 1;
            break;
        }
    }
    if (trc.overflow) {
        /* make an overflow visible: the native trace is never truncated */
        const char *m = "\nTRACE OVERFLOW\n";
        size_t      l = strlen(m);
        if (trc.cap > l + 1) {
            memcpy(trc.buf + trc.cap - l - 1, m, l);
            trc.len = trc.cap - 1;
        }
    }
    trc.buf[trc.len] = 0;
    return trc.len;
}

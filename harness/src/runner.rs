//! Seeded multi-thread proptest driver, shrinking, replay files, evidence.

use proptest::collection::vec;
use proptest::prelude::*;
use proptest::test_runner::{Config, RngAlgorithm, RngSeed, TestCaseError, TestError, TestRng, TestRunner};
use serde_json::{json, Value};
use std::cell::RefCell;
use std::collections::{BTreeMap, HashSet};
use std::hash::{Hash, Hasher};
use std::panic::{self, AssertUnwindSafe};
use std::sync::Mutex;
use std::time::Instant;

#[derive(Clone, Copy, Debug, PartialEq, Eq)]
pub enum Tier {
    Quick,
    Thorough,
}

impl Tier {
    pub fn name(&self) -> &'static str {
        match self {
            Tier::Quick => "quick",
            Tier::Thorough => "thorough",
        }
    }
}

#[derive(Clone, Debug)]
pub struct Ctx {
    pub tier: Tier,
    pub seed: u64,
    pub threads: usize,
    /// multiplies the case counts (VERIF_SCALE, default 1.0)
    pub scale: f64,
    pub verif_dir: String,
}

impl Ctx {
    pub fn cases(&self, quick: u64, thorough: u64) -> u64 {
        let n = match self.tier {
            Tier::Quick => quick,
            Tier::Thorough => thorough,
        };
        ((n as f64) * self.scale).max(1.0) as u64
    }
}

#[derive(Clone, Debug)]
pub struct Failure {
    /// short, stable signature (used for known-findings matching)
    pub sig: String,
    /// full human-readable description incl. the case
    pub detail: String,
}

impl Failure {
    pub fn new(sig: impl Into<String>, detail: impl Into<String>) -> Failure {
        Failure { sig: sig.into(), detail: detail.into() }
    }
}

pub type PResult = Result<(), Failure>;

#[macro_export]
macro_rules! fail {
    ($sig:expr, $($arg:tt)*) => {
        return Err($crate::runner::Failure::new($sig, format!($($arg)*)))
    };
}

#[macro_export]
macro_rules! ensure {
    ($cond:expr, $sig:expr, $($arg:tt)*) => {
        if !($cond) {
            return Err($crate::runner::Failure::new($sig, format!($($arg)*)));
        }
    };
}

#[derive(Default, Debug)]
pub struct Stats {
    pub evals: u64,
    pub classes: BTreeMap<String, u64>,
    pub nontrivial: HashSet<u64>,
    pub samples: BTreeMap<String, Vec<Value>>,
    pub maxima: BTreeMap<String, f64>,
    pub excluded: u64,
    pub frozen: bool,
}

impl Stats {
    pub fn class(&mut self, name: &str) {
        if self.frozen {
            return;
        }
        *self.classes.entry(name.to_string()).or_insert(0) += 1;
    }
    pub fn class_n(&mut self, name: &str, n: u64) {
        if self.frozen {
            return;
        }
        *self.classes.entry(name.to_string()).or_insert(0) += n;
    }
    pub fn nontrivial<H: Hash>(&mut self, h: &H) {
        if self.frozen {
            return;
        }
        let mut s = std::collections::hash_map::DefaultHasher::new();
        h.hash(&mut s);
        self.nontrivial.insert(s.finish());
    }
    pub fn wants_sample(&self, class: &str) -> bool {
        !self.frozen && self.samples.get(class).map(|v| v.len()).unwrap_or(0) < 1 && self.samples.len() < 24
    }
    pub fn sample(&mut self, class: &str, v: Value) {
        if self.wants_sample(class) {
            self.samples.entry(class.to_string()).or_default().push(v);
        }
    }
    pub fn max(&mut self, key: &str, v: f64) {
        if self.frozen {
            return;
        }
        let e = self.maxima.entry(key.to_string()).or_insert(f64::MIN);
        if v > *e {
            *e = v;
        }
    }
    pub fn merge(&mut self, o: Stats) {
        self.evals += o.evals;
        self.excluded += o.excluded;
        for (k, v) in o.classes {
            *self.classes.entry(k).or_insert(0) += v;
        }
        self.nontrivial.extend(o.nontrivial);
        for (k, v) in o.samples {
            let e = self.samples.entry(k).or_default();
            if e.is_empty() {
                e.extend(v);
            }
        }
        for (k, v) in o.maxima {
            let e = self.maxima.entry(k).or_insert(f64::MIN);
            if v > *e {
                *e = v;
            }
        }
    }
    pub fn count(&self, class: &str) -> u64 {
        self.classes.get(class).copied().unwrap_or(0)
    }
}

thread_local! {
    static LAST_PANIC: RefCell<String> = RefCell::new(String::new());
}

/// Install a panic hook that records the message instead of printing it.
pub fn quiet_panics() {
    panic::set_hook(Box::new(|info| {
        let loc = info.location().map(|l| format!("{}:{}", l.file(), l.line())).unwrap_or_default();
        let msg = if let Some(s) = info.payload().downcast_ref::<&str>() {
            s.to_string()
        } else if let Some(s) = info.payload().downcast_ref::<String>() {
            s.clone()
        } else {
            "panic".to_string()
        };
        if std::env::var_os("VERIF_LOUD_PANICS").is_some() {
            eprintln!("panic: {} at {}", msg, loc);
        }
        LAST_PANIC.with(|p| *p.borrow_mut() = format!("{} at {}", msg, loc));
    }));
}

/// Run `f`, turning a panic into `Err(message)`.
pub fn catch<T>(f: impl FnOnce() -> T) -> Result<T, String> {
    match panic::catch_unwind(AssertUnwindSafe(f)) {
        Ok(v) => Ok(v),
        Err(_) => Err(LAST_PANIC.with(|p| p.borrow().clone())),
    }
}

/// Stable short form of a panic message for signatures (strip numbers).
pub fn panic_sig(msg: &str) -> String {
    let mut s = String::new();
    let mut last_hash = false;
    for c in msg.chars() {
        if c.is_ascii_digit() {
            if !last_hash {
                s.push('#');
                last_hash = true;
            }
        } else {
            s.push(c);
            last_hash = false;
        }
    }
    s.chars().take(120).collect()
}

pub trait Prop: Sync {
    fn max_len(&self) -> usize;
    fn run(&self, data: &[u8], st: &mut Stats) -> PResult;
}

impl<F> Prop for (usize, F)
where
    F: Fn(&[u8], &mut Stats) -> PResult + Sync,
{
    fn max_len(&self) -> usize {
        self.0
    }
    fn run(&self, data: &[u8], st: &mut Stats) -> PResult {
        (self.1)(data, st)
    }
}

#[derive(Debug)]
pub struct Found {
    pub failure: Failure,
    pub data: Vec<u8>,
}

#[derive(Clone, Debug, serde::Deserialize)]
pub struct OpenFinding {
    pub property: String,
    pub signature: String,
    pub what: String,
}

#[derive(Clone, Debug, Default, serde::Deserialize)]
pub struct KnownFindings {
    #[serde(default)]
    pub open: Vec<OpenFinding>,
    #[serde(default)]
    pub fixed: Vec<Value>,
}

pub fn load_known(verif_dir: &str) -> KnownFindings {
    let p = format!("{}/known_findings.json", verif_dir);
    match std::fs::read_to_string(&p) {
        Ok(s) => serde_json::from_str(&s).unwrap_or_default(),
        Err(_) => KnownFindings::default(),
    }
}

/// Drive a property over `cases` generated choice strings on all threads.
/// `known`: signatures (substrings) of open findings to be excluded.
/// Property id of the running check (set by main); names the provisional failure files.
pub static CURRENT_PROPERTY: Mutex<String> = Mutex::new(String::new());

/// The first failing case of a worker is written out at once, before shrinking: when a changed library
/// then hangs in the shrink phase the watchdog of ./check replays these files, so a violation that was
/// already seen is still reported (a hang alone stays inconclusive).
fn save_provisional(ctx: &Ctx, stream: u64, worker: u64, sig: &str, data: &[u8]) {
    let id = CURRENT_PROPERTY.lock().map(|g| g.clone()).unwrap_or_default();
    if id.is_empty() || sig.starts_with("HARNESS:") {
        return;
    }
    let dir = format!("{}/work/provisional", ctx.verif_dir);
    let _ = std::fs::create_dir_all(&dir);
    let body = json!({
        "property": id,
        "kind": "choices",
        "data": crate::model::hex(data),
        "signature": sig,
        "detail": "unshrunk first failure of a worker (written before shrinking)",
        "seed": ctx.seed,
        "tier": ctx.tier.name(),
    });
    let _ = std::fs::write(format!("{}/{}-{}-{}.case", dir, id, stream, worker), serde_json::to_string(&body).unwrap());
}

pub fn clear_provisional(ctx: &Ctx, id: &str) {
    if let Ok(rd) = std::fs::read_dir(format!("{}/work/provisional", ctx.verif_dir)) {
        for e in rd.flatten() {
            if e.file_name().to_string_lossy().starts_with(&format!("{}-", id)) {
                let _ = std::fs::remove_file(e.path());
            }
        }
    }
}

pub fn drive<P: Prop>(p: &P, cases: u64, ctx: &Ctx, stream: u64, known: &[String]) -> (Stats, Vec<Found>, BTreeMap<String, u64>) {
    let threads = ctx.threads.max(1) as u64;
    let per = (cases + threads - 1) / threads;
    let total = Mutex::new(Stats::default());
    let founds: Mutex<Vec<Found>> = Mutex::new(vec![]);
    let known_hits: Mutex<BTreeMap<String, u64>> = Mutex::new(BTreeMap::new());
    std::thread::scope(|s| {
        for w in 0..threads {
            let total = &total;
            let founds = &founds;
            let known_hits = &known_hits;
            s.spawn(move || {
                let mut seed_bytes = [0u8; 32];
                let sd = ctx.seed.wrapping_mul(0x9e37_79b9_7f4a_7c15).wrapping_add(stream.wrapping_mul(0x1000_0001)).wrapping_add(w);
                seed_bytes[..8].copy_from_slice(&sd.to_le_bytes());
                seed_bytes[8..16].copy_from_slice(&(!sd).to_be_bytes());
                seed_bytes[16] = w as u8;
                let config = Config {
                    cases: per as u32,
                    failure_persistence: None,
                    rng_seed: RngSeed::Fixed(sd),
                    max_shrink_iters: 6000,
                    max_global_rejects: 0,
                    ..Config::default()
                };
                let rng = TestRng::from_seed(RngAlgorithm::ChaCha, &seed_bytes);
                let mut runner = TestRunner::new_with_rng(config, rng);
                let max = p.max_len();
                // length classes: short strings give simple cases, long ones big cases
                let strat = prop_oneof![
                    3 => vec(any::<u8>(), 0..=max / 8),
                    4 => vec(any::<u8>(), 0..=max / 2),
                    3 => vec(any::<u8>(), 0..=max),
                ];
                let st = RefCell::new(Stats::default());
                let khits: RefCell<BTreeMap<String, u64>> = RefCell::new(BTreeMap::new());
                let res = runner.run(&strat, |data| {
                    let mut st = st.borrow_mut();
                    if !st.frozen {
                        st.evals += 1;
                    }
                    match catch(|| p.run(&data, &mut st)) {
                        Ok(Ok(())) => Ok(()),
                        Ok(Err(f)) => {
                            if let Some(k) = known.iter().find(|k| f.sig.contains(k.as_str())) {
                                if !st.frozen {
                                    st.excluded += 1;
                                    *khits.borrow_mut().entry(k.clone()).or_insert(0) += 1;
                                }
                                return Ok(());
                            }
                            if !st.frozen {
                                save_provisional(ctx, stream, w, &f.sig, &data);
                            }
                            st.frozen = true;
                            Err(TestCaseError::fail(f.sig))
                        }
                        Err(pm) => {
                            if !st.frozen {
                                save_provisional(ctx, stream, w, &format!("harness-panic: {}", panic_sig(&pm)), &data);
                            }
                            st.frozen = true;
                            Err(TestCaseError::fail(format!("harness-panic: {}", panic_sig(&pm))))
                        }
                    }
                });
                if let Err(TestError::Fail(reason, data)) = res {
                    // re-run the minimal case for the full description
                    let mut scratch = Stats { frozen: true, ..Default::default() };
                    let failure = match catch(|| p.run(&data, &mut scratch)) {
                        Ok(Err(f)) => f,
                        Ok(Ok(())) => Failure::new(reason.message().to_string(), "minimal case passed on re-run (flaky oracle?)".to_string()),
                        Err(pm) => Failure::new(format!("harness-panic: {}", panic_sig(&pm)), pm),
                    };
                    founds.lock().unwrap().push(Found { failure, data });
                }
                let mut st = st.into_inner();
                st.frozen = false;
                total.lock().unwrap().merge(st);
                let mut kh = known_hits.lock().unwrap();
                for (k, v) in khits.into_inner() {
                    *kh.entry(k).or_insert(0) += v;
                }
            });
        }
    });
    (total.into_inner().unwrap(), founds.into_inner().unwrap(), known_hits.into_inner().unwrap())
}

/// Outcome of one check run, turned into evidence + exit status by `finish`.
pub struct Report {
    pub property: &'static str,
    pub rule: String,
    pub assumptions: Vec<String>,
    pub stats: Stats,
    pub founds: Vec<Found>,
    pub known_hits: BTreeMap<String, u64>,
    /// classes that must have been reached, else the run is inconclusive (exit 2)
    pub required: Vec<String>,
    pub exhaustive: Option<bool>,
    pub extra: BTreeMap<String, Value>,
    /// non-trivial cases counted exactly by a duplicate-free enumeration (added to the hash-set size)
    pub counted_nontrivial: u64,
    pub start: Instant,
}

impl Report {
    pub fn new(property: &'static str) -> Report {
        Report {
            property,
            rule: String::new(),
            assumptions: vec![],
            stats: Stats::default(),
            founds: vec![],
            known_hits: BTreeMap::new(),
            required: vec![],
            exhaustive: None,
            extra: BTreeMap::new(),
            counted_nontrivial: 0,
            start: Instant::now(),
        }
    }
    pub fn absorb(&mut self, r: (Stats, Vec<Found>, BTreeMap<String, u64>)) {
        self.stats.merge(r.0);
        self.founds.extend(r.1);
        for (k, v) in r.2 {
            *self.known_hits.entry(k).or_insert(0) += v;
        }
    }
    pub fn require(&mut self, classes: &[&str]) {
        self.required.extend(classes.iter().map(|s| s.to_string()));
    }
    /// A directly executed (non-generated) case: regression or exhaustive item.
    pub fn direct(&mut self, name: &str, r: Result<PResult, String>, known: &[String]) {
        self.stats.evals += 1;
        let f = match r {
            Ok(Ok(())) => return,
            Ok(Err(f)) => f,
            Err(pm) => Failure::new(format!("panic: {}", panic_sig(&pm)), pm),
        };
        if let Some(k) = known.iter().find(|k| f.sig.contains(k.as_str())) {
            self.stats.excluded += 1;
            *self.known_hits.entry(k.clone()).or_insert(0) += 1;
            return;
        }
        let f = Failure::new(f.sig, format!("[direct case {}] {}", name, f.detail));
        self.founds.push(Found { failure: f, data: name.as_bytes().to_vec() });
    }
}

pub fn finish(mut rep: Report, ctx: &Ctx, known: &KnownFindings) -> i32 {
    let wall = rep.start.elapsed().as_secs_f64();
    let id = rep.property;
    // one report per distinct signature (every worker tends to find the same defect)
    {
        let mut seen = HashSet::new();
        rep.founds.retain(|f| seen.insert(f.failure.sig.clone()));
    }
    let dir = &ctx.verif_dir;
    let _ = std::fs::create_dir_all(format!("{}/evidence", dir));
    let _ = std::fs::create_dir_all(format!("{}/replays/{}", dir, id));
    let mut status = 0;
    // replay files
    let mut replay_paths = vec![];
    for (i, f) in rep.founds.iter().enumerate() {
        let mut h = std::collections::hash_map::DefaultHasher::new();
        f.data.hash(&mut h);
        f.failure.sig.hash(&mut h);
        let path = format!("{}/replays/{}/found-{:016x}.case", dir, id, h.finish());
        let body = json!({
            "property": id,
            "kind": "choices",
            "data": crate::model::hex(&f.data),
            "signature": f.failure.sig,
            "detail": f.failure.detail,
            "seed": ctx.seed,
            "tier": ctx.tier.name(),
        });
        let _ = std::fs::write(&path, serde_json::to_string_pretty(&body).unwrap());
        replay_paths.push(path);
        if i >= 8 {
            break;
        }
    }
    // missing required classes => inconclusive
    let missing: Vec<String> = rep.required.iter().filter(|c| rep.stats.count(c) == 0).cloned().collect();
    let mut samples: Vec<Value> = vec![];
    for (k, v) in &rep.stats.samples {
        for s in v {
            samples.push(json!({"class": k, "case": s}));
        }
    }
    if samples.is_empty() {
        samples.push(json!({"note": "no sample recorded"}));
    }
    let classes: BTreeMap<String, u64> = rep.stats.classes.clone();
    let mut coverage = json!({
        "evaluations": rep.stats.evals,
        "distinct_nontrivial": rep.stats.nontrivial.len() as u64 + rep.counted_nontrivial,
        "rule": rep.rule,
        "samples": samples,
        "classes": classes,
        "excluded_by_known_findings": rep.stats.excluded,
        "maxima": rep.stats.maxima,
        "required_classes_missing": missing,
        "threads": ctx.threads,
    });
    if let Some(e) = rep.exhaustive {
        coverage["exhaustive"] = json!(e);
    }
    for (k, v) in std::mem::take(&mut rep.extra) {
        coverage[k] = v;
    }
    let ev = json!({
        "property_id": id,
        "tier": ctx.tier.name(),
        "seed": ctx.seed,
        "level": "exploration",
        "coverage": coverage,
        "assumptions": rep.assumptions,
        "wall_s": wall,
        "violations": rep.founds.len(),
    });
    let suffix = std::env::var("VERIF_EVIDENCE_SUFFIX").unwrap_or_default();
    let evp = format!("{}/evidence/{}{}.json", dir, id, suffix);
    if let Err(e) = std::fs::write(&evp, serde_json::to_string_pretty(&ev).unwrap()) {
        eprintln!("cannot write evidence {}: {}", evp, e);
        return 2;
    }
    for (k, n) in &rep.known_hits {
        let what = known.open.iter().find(|o| &o.signature == k).map(|o| o.what.clone()).unwrap_or_default();
        println!("KNOWN-FINDING: property={} {} [signature {:?}, {} cases excluded]", id, what, k, n);
    }
    if !rep.founds.is_empty() {
        for (f, p) in rep.founds.iter().zip(replay_paths.iter()) {
            println!("--- {} failure: {}\n{}", id, f.failure.sig, f.failure.detail);
            if f.failure.sig.starts_with("HARNESS:") {
                // model and reference decoder disagree: a harness defect, never a violation
                println!("INCONCLUSIVE property={} harness self-check failed (replay={})", id, p);
                if status == 0 {
                    status = 2;
                }
            } else {
                println!("VIOLATION property={} replay={}", id, p);
                status = 1;
            }
        }
    } else if !missing.is_empty() {
        println!("INCONCLUSIVE property={} generator did not reach classes {:?}", id, missing);
        status = 2;
    }
    println!(
        "{} {}: evaluations={} distinct_nontrivial={} excluded={} violations={} wall={:.1}s",
        id,
        ctx.tier.name(),
        rep.stats.evals,
        rep.stats.nontrivial.len() as u64 + rep.counted_nontrivial,
        rep.stats.excluded,
        rep.founds.len(),
        wall
    );
    status
}

/// Error rendered as "<Kind>|<message>": the kind comes from the DSError variant (so that a reworded
/// message does not matter), "other" when the error is not a DSError.
pub fn estr(e: dnssector::Error) -> String {
    use dnssector::DSError;
    let kind = match e.downcast_ref::<DSError>() {
        Some(DSError::VoidRecord) => "VoidRecord",
        Some(DSError::PacketTooLarge) => "PacketTooLarge",
        Some(DSError::PacketTooSmall) => "PacketTooSmall",
        Some(DSError::InvalidName(_)) => "InvalidName",
        Some(DSError::InvalidPacket(_)) => "InvalidPacket",
        Some(DSError::ParseError) => "ParseError",
        Some(_) => "OtherDSError",
        None => "other",
    };
    format!("{}|{}", kind, e)
}

//! Choice source: every structured case is a pure function of a byte string.
//!
//! The byte string comes from proptest (`vec(any::<u8>(), ..)`, so that it
//! shrinks and replays) or from libFuzzer.  All index choices are *monotone*
//! in the drawn value (`v * n >> bits`, never `%`), so that shrinking the
//! bytes towards zero moves every choice towards its first / simplest option.
//! An exhausted source yields zeros, i.e. the simplest options.

pub struct Src<'a> {
    data: &'a [u8],
    pos: usize,
}

impl<'a> Src<'a> {
    pub fn new(data: &'a [u8]) -> Self {
        Src { data, pos: 0 }
    }

    /// An independent source continuing at the current position (the original does not advance).
    pub fn fork(&self) -> Src<'a> {
        Src { data: self.data, pos: self.pos }
    }

    pub fn exhausted(&self) -> bool {
        self.pos >= self.data.len()
    }

    pub fn consumed(&self) -> usize {
        self.pos
    }

    #[inline]
    pub fn u8(&mut self) -> u8 {
        let v = self.data.get(self.pos).copied().unwrap_or(0);
        self.pos += 1;
        v
    }

    pub fn u16(&mut self) -> u16 {
        ((self.u8() as u16) << 8) | self.u8() as u16
    }

    pub fn u32(&mut self) -> u32 {
        ((self.u16() as u32) << 16) | self.u16() as u32
    }

    /// Uniform-ish choice in `0..n` (n >= 1), monotone in the drawn value.
    pub fn below(&mut self, n: usize) -> usize {
        debug_assert!(n >= 1);
        if n <= 1 {
            return 0;
        }
        if n <= 256 {
            (self.u8() as usize * n) >> 8
        } else if n <= 65536 {
            (self.u16() as usize * n) >> 16
        } else {
            ((self.u32() as u64 * n as u64) >> 32) as usize
        }
    }

    /// Inclusive range.
    pub fn range(&mut self, lo: usize, hi: usize) -> usize {
        debug_assert!(lo <= hi);
        lo + self.below(hi - lo + 1)
    }

    /// True with probability about `num/256`; zero bytes give `false`.
    pub fn chance(&mut self, num: u32) -> bool {
        let v = self.u8() as u32;
        v >= 256 - num.min(256)
    }

    pub fn pick<'b, T>(&mut self, xs: &'b [T]) -> &'b T {
        &xs[self.below(xs.len())]
    }

    /// Weighted choice; earlier entries are "simpler".
    pub fn weighted(&mut self, weights: &[u32]) -> usize {
        let total: u32 = weights.iter().sum();
        debug_assert!(total > 0 && total <= 65536);
        let v = if total <= 256 {
            (self.u8() as u32 * total) >> 8
        } else {
            (self.u16() as u32 * total) >> 16
        };
        let mut acc = 0;
        for (i, &w) in weights.iter().enumerate() {
            acc += w;
            if v < acc {
                return i;
            }
        }
        weights.len() - 1
    }

    pub fn bytes(&mut self, n: usize) -> Vec<u8> {
        (0..n).map(|_| self.u8()).collect()
    }

    /// The rest of the underlying data (used for "raw bytes" cases).
    pub fn rest(&mut self) -> &'a [u8] {
        let r = if self.pos < self.data.len() { &self.data[self.pos..] } else { &[] };
        self.pos = self.data.len();
        r
    }
}

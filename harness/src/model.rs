//! Abstract DNS message model (independent of the library under test).

use serde::{Deserialize, Serialize};

pub const T_A: u16 = 1;
pub const T_NS: u16 = 2;
pub const T_CNAME: u16 = 5;
pub const T_SOA: u16 = 6;
pub const T_PTR: u16 = 12;
pub const T_MX: u16 = 15;
pub const T_TXT: u16 = 16;
pub const T_AAAA: u16 = 28;
pub const T_SRV: u16 = 33;
pub const T_DNAME: u16 = 39;
pub const T_OPT: u16 = 41;
pub const T_DS: u16 = 43;

/// A domain name: list of labels, root label not included.
#[derive(Clone, Debug, PartialEq, Eq, Hash, PartialOrd, Ord, Serialize, Deserialize, Default)]
pub struct Name(pub Vec<Vec<u8>>);

impl Name {
    pub fn root() -> Name {
        Name(vec![])
    }
    pub fn from_labels(ls: &[&[u8]]) -> Name {
        Name(ls.iter().map(|l| l.to_vec()).collect())
    }
    /// `a.b.c` (no escapes) -> Name
    pub fn from_dotted(s: &str) -> Name {
        if s.is_empty() || s == "." {
            return Name::root();
        }
        Name(s.trim_end_matches('.').split('.').map(|l| l.as_bytes().to_vec()).collect())
    }
    pub fn is_root(&self) -> bool {
        self.0.is_empty()
    }
    pub fn wire_len(&self) -> usize {
        self.0.iter().map(|l| l.len() + 1).sum::<usize>() + 1
    }
    pub fn to_wire(&self) -> Vec<u8> {
        let mut v = Vec::with_capacity(self.wire_len());
        for l in &self.0 {
            v.push(l.len() as u8);
            v.extend_from_slice(l);
        }
        v.push(0);
        v
    }
    /// Parse a pointer-free wire name occupying the whole slice.
    pub fn from_wire(w: &[u8]) -> Option<Name> {
        let mut i = 0;
        let mut ls = vec![];
        loop {
            let l = *w.get(i)? as usize;
            if l == 0 {
                return if i + 1 == w.len() { Some(Name(ls)) } else { None };
            }
            if l > 63 {
                return None;
            }
            ls.push(w.get(i + 1..i + 1 + l)?.to_vec());
            i += 1 + l;
        }
    }
    /// Presentation form as the library prints it: labels joined by '.',
    /// ASCII lower-cased, a '.' inside a label written `\046`; root = "".
    pub fn to_text_lower(&self) -> Vec<u8> {
        let mut v = vec![];
        for (i, l) in self.0.iter().enumerate() {
            if i > 0 {
                v.push(b'.');
            }
            for &c in l {
                if c == b'.' {
                    v.extend_from_slice(b"\\046");
                } else {
                    v.push(c.to_ascii_lowercase());
                }
            }
        }
        v
    }
    pub fn lower(&self) -> Name {
        Name(self.0.iter().map(|l| l.to_ascii_lowercase()).collect())
    }
    pub fn eq_ci(&self, o: &Name) -> bool {
        self.0.len() == o.0.len() && self.0.iter().zip(&o.0).all(|(a, b)| a.eq_ignore_ascii_case(b))
    }
    /// Human-readable (lossy) rendering for samples.
    pub fn show(&self) -> String {
        if self.0.is_empty() {
            return ".".into();
        }
        let mut s = String::new();
        for l in &self.0 {
            for &c in l {
                if c.is_ascii_graphic() && c != b'.' && c != b'\\' {
                    s.push(c as char);
                } else {
                    s.push_str(&format!("\\{:03}", c));
                }
            }
            s.push('.');
        }
        s
    }
    /// Does every label satisfy the validator's character policy?
    pub fn clean(&self) -> bool {
        self.0.iter().all(|l| l.iter().all(|&c| label_char_ok(c)))
    }
    pub fn well_formed(&self) -> bool {
        self.wire_len() <= 255 && self.0.iter().all(|l| !l.is_empty() && l.len() <= 63)
    }
}

/// Character policy of compressed-name positions: no ASCII control characters
/// (0x00-0x1F, 0x7F), no dot, no backslash.
pub fn label_char_ok(c: u8) -> bool {
    !(c < 0x20 || c == 0x7f || c == b'.' || c == b'\\')
}

#[derive(Clone, Debug, PartialEq, Eq, Hash, Serialize, Deserialize)]
pub enum Rdata {
    A([u8; 4]),
    Aaaa([u8; 16]),
    /// NS, CNAME, PTR
    Name1(Name),
    Mx(u16, Name),
    Soa(Name, Name, Vec<u8>), // 20 fixed bytes
    Dname(Name),
    /// EDNS options (code, data) of an OPT pseudo-record
    Opt(Vec<(u16, Vec<u8>)>),
    Opaque(Vec<u8>),
}

#[derive(Clone, Debug, PartialEq, Eq, Hash, Serialize, Deserialize)]
pub struct Record {
    pub owner: Name,
    pub rtype: u16,
    pub class: u16,
    pub ttl: u32,
    pub rdata: Rdata,
}

impl Record {
    pub fn is_opt(&self) -> bool {
        self.rtype == T_OPT
    }
    /// Pointer-free wire form of the rdata.
    pub fn rdata_wire(&self) -> Vec<u8> {
        match &self.rdata {
            Rdata::A(a) => a.to_vec(),
            Rdata::Aaaa(a) => a.to_vec(),
            Rdata::Name1(n) | Rdata::Dname(n) => n.to_wire(),
            Rdata::Mx(p, n) => {
                let mut v = p.to_be_bytes().to_vec();
                v.extend(n.to_wire());
                v
            }
            Rdata::Soa(a, b, f) => {
                let mut v = a.to_wire();
                v.extend(b.to_wire());
                v.extend_from_slice(f);
                v
            }
            Rdata::Opt(opts) => {
                let mut v = vec![];
                for (c, d) in opts {
                    v.extend_from_slice(&c.to_be_bytes());
                    v.extend_from_slice(&(d.len() as u16).to_be_bytes());
                    v.extend_from_slice(d);
                }
                v
            }
            Rdata::Opaque(d) => d.clone(),
        }
    }
    /// Pointer-free wire form of the whole record.
    pub fn to_wire(&self) -> Vec<u8> {
        let mut v = self.owner.to_wire();
        v.extend_from_slice(&self.rtype.to_be_bytes());
        v.extend_from_slice(&self.class.to_be_bytes());
        v.extend_from_slice(&self.ttl.to_be_bytes());
        let rd = self.rdata_wire();
        v.extend_from_slice(&(rd.len() as u16).to_be_bytes());
        v.extend(rd);
        v
    }
    pub fn names_mut(&mut self) -> Vec<&mut Name> {
        let mut v: Vec<&mut Name> = vec![&mut self.owner];
        match &mut self.rdata {
            Rdata::Name1(n) | Rdata::Mx(_, n) => v.push(n),
            Rdata::Soa(a, b, _) => {
                v.push(a);
                v.push(b);
            }
            _ => {}
        }
        v
    }
    pub fn lower_names(&self) -> Record {
        let mut r = self.clone();
        for n in r.names_mut() {
            *n = n.lower();
        }
        r
    }
    pub fn show(&self) -> String {
        let rd = match &self.rdata {
            Rdata::A(a) => format!("A {}.{}.{}.{}", a[0], a[1], a[2], a[3]),
            Rdata::Aaaa(a) => format!("AAAA {}", hex(a)),
            Rdata::Name1(n) => format!("NAME {}", n.show()),
            Rdata::Mx(p, n) => format!("MX {} {}", p, n.show()),
            Rdata::Soa(a, b, f) => format!("SOA {} {} {}", a.show(), b.show(), hex(f)),
            Rdata::Dname(n) => format!("DNAME {}", n.show()),
            Rdata::Opt(o) => format!("OPT {:?}", o.iter().map(|(c, d)| (*c, hex(d))).collect::<Vec<_>>()),
            Rdata::Opaque(d) => format!("OPAQUE[{}] {}", d.len(), hex(&d[..d.len().min(24)])),
        };
        format!("{} t{} c{} ttl{} {}", self.owner.show(), self.rtype, self.class, self.ttl, rd)
    }
}

#[derive(Clone, Debug, PartialEq, Eq, Hash, Serialize, Deserialize)]
pub struct Question {
    pub name: Name,
    pub qtype: u16,
    pub qclass: u16,
}

#[derive(Clone, Debug, PartialEq, Eq, Hash, Serialize, Deserialize, Default)]
pub struct Message {
    pub id: u16,
    pub flags: u16,
    pub qd: Vec<Question>,
    pub an: Vec<Record>,
    pub ns: Vec<Record>,
    pub ar: Vec<Record>,
}

impl Message {
    pub fn is_response(&self) -> bool {
        self.flags & 0x8000 != 0
    }
    pub fn section(&self, s: usize) -> &Vec<Record> {
        match s {
            1 => &self.an,
            2 => &self.ns,
            3 => &self.ar,
            _ => panic!("bad section"),
        }
    }
    pub fn section_mut(&mut self, s: usize) -> &mut Vec<Record> {
        match s {
            1 => &mut self.an,
            2 => &mut self.ns,
            3 => &mut self.ar,
            _ => panic!("bad section"),
        }
    }
    pub fn opt(&self) -> Option<&Record> {
        self.ar.iter().find(|r| r.is_opt())
    }
    pub fn opt_index(&self) -> Option<usize> {
        self.ar.iter().position(|r| r.is_opt())
    }
    pub fn all_records(&self) -> impl Iterator<Item = &Record> {
        self.an.iter().chain(self.ns.iter()).chain(self.ar.iter())
    }
    /// Same message with every name (not DNAME targets, not opaque data) lower-cased.
    pub fn lower_names(&self) -> Message {
        Message {
            id: self.id,
            flags: self.flags,
            qd: self.qd.iter().map(|q| Question { name: q.name.lower(), qtype: q.qtype, qclass: q.qclass }).collect(),
            an: self.an.iter().map(|r| r.lower_names()).collect(),
            ns: self.ns.iter().map(|r| r.lower_names()).collect(),
            ar: self.ar.iter().map(|r| r.lower_names()).collect(),
        }
    }
    /// Equality up to ASCII case of names.
    pub fn eq_ci(&self, o: &Message) -> bool {
        self.lower_names() == o.lower_names()
    }
    /// Pointer-free canonical wire form.
    pub fn to_wire_plain(&self) -> Vec<u8> {
        let mut v = vec![];
        v.extend_from_slice(&self.id.to_be_bytes());
        v.extend_from_slice(&self.flags.to_be_bytes());
        v.extend_from_slice(&(self.qd.len() as u16).to_be_bytes());
        v.extend_from_slice(&(self.an.len() as u16).to_be_bytes());
        v.extend_from_slice(&(self.ns.len() as u16).to_be_bytes());
        v.extend_from_slice(&(self.ar.len() as u16).to_be_bytes());
        for q in &self.qd {
            v.extend(q.name.to_wire());
            v.extend_from_slice(&q.qtype.to_be_bytes());
            v.extend_from_slice(&q.qclass.to_be_bytes());
        }
        for r in self.all_records() {
            v.extend(r.to_wire());
        }
        v
    }
    pub fn show(&self) -> String {
        let mut s = format!("id={:04x} flags={:04x}", self.id, self.flags);
        for q in &self.qd {
            s.push_str(&format!(" | Q {} t{} c{}", q.name.show(), q.qtype, q.qclass));
        }
        for (tag, sec) in [("AN", &self.an), ("NS", &self.ns), ("AR", &self.ar)] {
            for r in sec {
                s.push_str(&format!(" | {} {}", tag, r.show()));
            }
        }
        s
    }
    /// First difference between two messages, for diagnostics.
    pub fn diff(&self, o: &Message, ci: bool) -> String {
        let (a, b) = if ci { (self.lower_names(), o.lower_names()) } else { (self.clone(), o.clone()) };
        if a.id != b.id {
            return format!("id {:04x} vs {:04x}", a.id, b.id);
        }
        if a.flags != b.flags {
            return format!("flags {:04x} vs {:04x}", a.flags, b.flags);
        }
        if a.qd != b.qd {
            return format!("question {:?} vs {:?}", a.qd, b.qd);
        }
        for (tag, x, y) in [("an", &a.an, &b.an), ("ns", &a.ns, &b.ns), ("ar", &a.ar, &b.ar)] {
            if x.len() != y.len() {
                return format!("{} count {} vs {}", tag, x.len(), y.len());
            }
            for (i, (r, s)) in x.iter().zip(y.iter()).enumerate() {
                if r != s {
                    return format!("{}[{}]: {} vs {}", tag, i, r.show(), s.show());
                }
            }
        }
        "equal".into()
    }
}

pub fn hex(b: &[u8]) -> String {
    let mut s = String::with_capacity(b.len() * 2);
    for x in b {
        s.push_str(&format!("{:02x}", x));
    }
    s
}

pub fn unhex(s: &str) -> Option<Vec<u8>> {
    let s = s.trim();
    if s.len() % 2 != 0 {
        return None;
    }
    (0..s.len()).step_by(2).map(|i| u8::from_str_radix(s.get(i..i + 2)?, 16).ok()).collect()
}

/// Hex for samples: full when short, abbreviated when long.
pub fn hex_abbrev(b: &[u8]) -> String {
    if b.len() <= 160 {
        hex(b)
    } else {
        format!("{}..({} bytes)..{}", hex(&b[..96]), b.len(), hex(&b[b.len() - 32..]))
    }
}

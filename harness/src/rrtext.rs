//! Grammar-derived record texts (valid, damaged) with the expected wire record,
//! for C13 and for the insert operations of C08-C10 / C15.

use crate::model::*;
use crate::src::Src;

#[derive(Clone, Debug)]
pub struct TextCase {
    pub text: String,
    pub rec: Record,
    pub features: Vec<&'static str>,
}

fn ws(src: &mut Src, min: usize, feats: &mut Vec<&'static str>) -> String {
    let n = match src.weighted(&[12, 2, 1]) {
        0 => min.max(1),
        1 => 2,
        _ => 3,
    };
    if min == 0 && src.chance(150) {
        return String::new();
    }
    let mut s = String::new();
    for _ in 0..n {
        if src.chance(40) {
            s.push('\t');
            if !feats.contains(&"tab") {
                feats.push("tab");
            }
        } else {
            s.push(' ');
        }
    }
    if n > 1 && !feats.contains(&"multi-blank") {
        feats.push("multi-blank");
    }
    s
}

fn ldh_char(src: &mut Src, first: bool) -> u8 {
    let c = if first {
        *src.pick(b"abcdefghijklmnopqrstuvwxyzABCXYZ_0123456789")
    } else {
        *src.pick(b"abcdefghijklmnopqrstuvwxyzABCXYZ0123456789-")
    };
    c
}

pub fn gen_ldh_label(src: &mut Src, len: usize) -> Vec<u8> {
    (0..len).map(|i| ldh_char(src, i == 0)).collect()
}

const HOST_LABELS: &[&str] = &["example", "com", "www", "a", "net", "mail", "_sip", "ns1", "x-y", "b2", "Example", "ORG"];

/// A host name in presentation form within the unambiguous core of the grammar:
/// LDH/underscore labels, at least one non-numeric label start, wire length <= `max_wire`.
/// Returns (text as written, name, trailing dot?).
pub fn gen_host(src: &mut Src, max_wire: usize, feats: &mut Vec<&'static str>, allow62_final: bool) -> (String, Name) {
    let mut labels: Vec<Vec<u8>> = vec![];
    match src.weighted(&[12, 3, 1, 1, 1]) {
        0 => {
            let k = src.range(1, 4);
            for _ in 0..k {
                labels.push(src.pick(HOST_LABELS).as_bytes().to_vec());
            }
        }
        1 => {
            let k = src.range(1, 3);
            for _ in 0..k {
                let l = src.range(1, 20);
                labels.push(gen_ldh_label(src, l));
            }
        }
        2 => {
            // a 62-byte label (the maximum the text form admits)
            feats.push("label-62");
            labels.push(gen_ldh_label(src, 62));
            labels.push(b"com".to_vec());
            if src.chance(128) && allow62_final {
                labels.rotate_left(1); // 62-byte label last
                feats.push("label-62-final");
            }
        }
        3 => {
            // maximal name: wire length max_wire (or one/two less)
            let target = max_wire - src.below(3);
            feats.push("maximal-name");
            let mut rem = target - 1;
            while rem > 0 {
                let l = if rem >= 63 { 62 } else { rem - 1 };
                if l == 0 {
                    let last = labels.last_mut().unwrap();
                    last.pop();
                    labels.push(gen_ldh_label(src, 1));
                    break;
                }
                labels.push(gen_ldh_label(src, l));
                rem -= l + 1;
            }
            if !allow62_final {
                // keep the last label shorter than 62
                if labels.last().map(|l| l.len()).unwrap_or(0) >= 62 {
                    let last = labels.last_mut().unwrap();
                    last.truncate(30);
                }
            }
        }
        _ => {
            labels.push(gen_ldh_label(src, 1));
        }
    }
    // make sure the name is not all-numeric (grammar status murky): force an alphabetic first char
    if labels.iter().all(|l| l.iter().all(|c| c.is_ascii_digit())) {
        labels[0][0] = b'n';
    }
    let mut n = Name(labels);
    while n.wire_len() > max_wire {
        n.0.remove(0);
    }
    if n.0.is_empty() {
        n = Name(vec![b"h".to_vec()]);
    }
    if n.0.iter().all(|l| l.iter().all(|c| c.is_ascii_digit())) {
        n.0[0][0] = b'n';
    }
    let mut text = String::from_utf8(n.0.join(&b'.')).unwrap();
    let final62 = n.0.last().map(|l| l.len() == 62).unwrap_or(false);
    if src.chance(128) || (final62 && !allow62_final) {
        if text.len() < 253 {
            text.push('.');
            feats.push("trailing-dot");
        }
    }
    (text, n)
}

fn case_mix(src: &mut Src, s: &str, feats: &mut Vec<&'static str>) -> String {
    match src.below(3) {
        0 => s.to_string(),
        1 => {
            feats.push("keyword-lowercase");
            s.to_lowercase()
        }
        _ => {
            feats.push("keyword-mixedcase");
            s.chars().enumerate().map(|(i, c)| if i % 2 == 0 { c.to_ascii_lowercase() } else { c.to_ascii_uppercase() }).collect()
        }
    }
}

fn gen_u32(src: &mut Src, feats: &mut Vec<&'static str>) -> (String, u32) {
    let v = match src.below(6) {
        0 => {
            feats.push("u32-zero");
            0
        }
        1 => {
            feats.push("u32-max");
            u32::MAX
        }
        2 => 1 << 31,
        3 => 1,
        _ => src.u32(),
    };
    let mut s = v.to_string();
    if src.chance(30) {
        s = format!("00{}", s);
        feats.push("leading-zeros");
    }
    (s, v)
}

pub struct TextOpts {
    /// the D22 boundary (62-byte final label directly followed by a blank) is part of the valid set
    pub allow62_final: bool,
    /// maximum wire length of generated host names
    pub max_wire: usize,
}

impl Default for TextOpts {
    fn default() -> Self {
        TextOpts { allow62_final: true, max_wire: 253 }
    }
}

pub fn gen_valid(src: &mut Src, o: &TextOpts) -> TextCase {
    let mut f: Vec<&'static str> = vec![];
    let (owner_text, owner) = if src.chance(8) {
        f.push("root-owner");
        (".".to_string(), Name::root())
    } else {
        gen_host(src, o.max_wire, &mut f, o.allow62_final)
    };
    let (ttl_text, ttl) = gen_u32(src, &mut f);
    let mut text = String::new();
    text.push_str(&ws(src, 0, &mut f));
    text.push_str(&owner_text);
    text.push_str(&ws(src, 1, &mut f));
    text.push_str(&ttl_text);
    text.push_str(&ws(src, 1, &mut f));
    text.push_str(&case_mix(src, "IN", &mut f));
    text.push_str(&ws(src, 1, &mut f));
    let t = src.weighted(&[10, 6, 5, 5, 4, 8, 6, 6, 5]);
    let (kw, rtype, rdata_text, rdata): (&str, u16, String, Rdata) = match t {
        0 => {
            let a = [src.u8(), src.u8(), src.u8(), src.u8()];
            let mut parts: Vec<String> = a.iter().map(|x| x.to_string()).collect();
            if src.chance(40) {
                let i = src.below(4);
                parts[i] = format!("{:03}", a[i]);
                f.push("ipv4-leading-zeros");
            }
            ("A", T_A, parts.join("."), Rdata::A(a))
        }
        1 => {
            let mut a = [0u8; 16];
            match src.below(6) {
                0 => {
                    f.push("ipv6-unspecified");
                }
                5 => {
                    f.push("ipv6-special-shape");
                    a = crate::gens::gen_v6(src);
                }
                1 => {
                    a[15] = 1;
                }
                2 => {
                    for b in a.iter_mut() {
                        *b = src.u8();
                    }
                }
                3 => {
                    a[0] = 0x20;
                    a[1] = 0x01;
                    a[2] = 0x0d;
                    a[3] = 0xb8;
                    a[15] = src.u8();
                }
                _ => {
                    for b in a.iter_mut() {
                        *b = 0xff;
                    }
                }
            }
            let ip = std::net::Ipv6Addr::from(a);
            let s = match src.below(3) {
                0 => format!("{}", ip),
                1 => {
                    f.push("ipv6-uppercase");
                    format!("{}", ip).to_uppercase()
                }
                _ => {
                    f.push("ipv6-full-form");
                    let seg = ip.segments();
                    seg.iter().map(|x| format!("{:x}", x)).collect::<Vec<_>>().join(":")
                }
            };
            // Rust prints IPv4-mapped/compatible addresses with dots, which the grammar excludes
            let s = if s.contains('.') { ip.segments().iter().map(|x| format!("{:x}", x)).collect::<Vec<_>>().join(":") } else { s };
            ("AAAA", T_AAAA, s, Rdata::Aaaa(a))
        }
        2 | 3 | 4 => {
            let (ht, h) = gen_host(src, o.max_wire, &mut f, o.allow62_final);
            let (kw, ty) = match t {
                2 => ("NS", T_NS),
                3 => ("CNAME", T_CNAME),
                _ => ("PTR", T_PTR),
            };
            (kw, ty, ht, Rdata::Name1(h))
        }
        5 => {
            // TXT
            let len = match src.weighted(&[10, 2, 2, 2, 1, 1, 1]) {
                0 => src.range(1, 40),
                1 => {
                    f.push("txt-255");
                    255
                }
                2 => {
                    f.push("txt-256");
                    256
                }
                3 => {
                    f.push("txt-254");
                    254
                }
                4 => {
                    f.push("txt-510-511");
                    510 + src.below(2)
                }
                5 => {
                    f.push("txt-3825");
                    3825
                }
                _ => 1,
            };
            let mut data = Vec::with_capacity(len);
            let mut s = String::from("\"");
            for _ in 0..len {
                let c = match src.below(4) {
                    0 => src.u8(),
                    _ => *src.pick(b"abcxyz019 -_.:;=@"),
                };
                let literal_ok = c > 31 && c < 128 && c != b'\\' && c != b'"';
                if literal_ok && !src.chance(30) {
                    s.push(c as char);
                } else {
                    s.push_str(&format!("\\{:03}", c));
                    if !f.contains(&"txt-escape") {
                        f.push("txt-escape");
                    }
                }
                data.push(c);
            }
            s.push('"');
            let mut rd = vec![];
            for ch in data.chunks(255) {
                rd.push(ch.len() as u8);
                rd.extend_from_slice(ch);
            }
            ("TXT", T_TXT, s, Rdata::Opaque(rd))
        }
        6 => {
            let pref = match src.below(4) {
                0 => {
                    f.push("mx-pref-0");
                    0
                }
                1 => {
                    f.push("mx-pref-65535");
                    65535
                }
                _ => src.u16(),
            };
            let (ht, h) = gen_host(src, o.max_wire, &mut f, o.allow62_final);
            let mut s = pref.to_string();
            s.push_str(&ws(src, 1, &mut f));
            s.push_str(&ht);
            ("MX", T_MX, s, Rdata::Mx(pref, h))
        }
        7 => {
            let (t1, h1) = gen_host(src, o.max_wire, &mut f, o.allow62_final);
            let (t2, h2) = gen_host(src, o.max_wire, &mut f, true); // followed by '(' or blank
            let mut s = t1;
            s.push_str(&ws(src, 1, &mut f));
            s.push_str(&t2);
            // a 62-byte final label directly followed by '(' would also trip the pre-fix guard: keep a blank
            s.push_str(&ws(src, if o.allow62_final { 0 } else { 1 }, &mut f));
            s.push('(');
            let mut fixed = vec![];
            let seps: [&str; 4] = [" ", "\n", " \n\t ", "  "];
            if src.chance(100) {
                s.push_str(*src.pick(&seps[..]));
            }
            for i in 0..5 {
                let (nt, v) = gen_u32(src, &mut f);
                s.push_str(&nt);
                fixed.extend_from_slice(&v.to_be_bytes());
                if i < 4 {
                    let sep = *src.pick(&seps[..]);
                    if sep.contains('\n') && !f.contains(&"soa-newline") {
                        f.push("soa-newline");
                    }
                    s.push_str(sep);
                } else if src.chance(100) {
                    s.push_str(*src.pick(&seps[..]));
                }
            }
            s.push(')');
            ("SOA", T_SOA, s, Rdata::Soa(h1, h2, fixed))
        }
        _ => {
            let kt = *src.pick(&[0u16, 65535, 12345, 1]);
            let alg = *src.pick(&[0u8, 255, 8, 13]);
            let dt = *src.pick(&[0u8, 255, 1, 2]);
            let n = match src.below(4) {
                0 => 1,
                1 => 64,
                2 => 32,
                _ => src.range(1, 48),
            };
            // rarely: the largest digest that still fits the 65535-byte data limit
            let n = if src.chance(3) {
                f.push("ds-digest-65531");
                65531
            } else {
                n
            };
            let digest = if n > 1000 { vec![0xabu8; n] } else { src.bytes(n) };
            let mut hx = hex(&digest);
            if src.chance(100) {
                hx = hx.to_uppercase();
                f.push("ds-uppercase-hex");
            }
            let mut s = kt.to_string();
            s.push_str(&ws(src, 1, &mut f));
            s.push_str(&alg.to_string());
            s.push_str(&ws(src, 1, &mut f));
            s.push_str(&dt.to_string());
            s.push_str(&ws(src, 1, &mut f));
            s.push_str(&hx);
            let mut rd = kt.to_be_bytes().to_vec();
            rd.push(alg);
            rd.push(dt);
            rd.extend(digest);
            ("DS", T_DS, s, Rdata::Opaque(rd))
        }
    };
    text.push_str(&case_mix(src, kw, &mut f));
    text.push_str(&ws(src, 1, &mut f));
    text.push_str(&rdata_text);
    text.push_str(&ws(src, 0, &mut f));
    TextCase { text, rec: Record { owner, rtype, class: 1, ttl, rdata }, features: f }
}

/// One grammar-excluded change applied to a valid text; returns (text, kind).
pub fn damage_text(src: &mut Src, c: &TextCase) -> (String, &'static str) {
    let t = c.text.trim_matches(|ch| ch == ' ' || ch == '\t').to_string();
    let fields: Vec<&str> = t.split(|ch| ch == ' ' || ch == '\t').filter(|s| !s.is_empty()).collect();
    let join = |v: &[String]| v.join(" ");
    let fs: Vec<String> = fields.iter().map(|s| s.to_string()).collect();
    let is_txt = c.rec.rtype == T_TXT;
    let is_soa = c.rec.rtype == T_SOA;
    for _ in 0..8 {
        match src.below(24) {
            0 => {
                // a field removed (not for TXT/SOA whose rdata may contain blanks)
                if !is_txt && !is_soa && fs.len() >= 5 {
                    let i = src.below(fs.len());
                    let mut v = fs.clone();
                    v.remove(i);
                    return (join(&v), "field-removed");
                }
            }
            1 => {
                if !is_txt && !is_soa {
                    let mut v = fs.clone();
                    v.push("extra".into());
                    return (join(&v), "field-added");
                }
            }
            2 => {
                if !is_txt && fs.len() >= 5 {
                    let mut v = fs.clone();
                    v[1] = "4294967296".into();
                    return (join(&v), "ttl-overflow");
                }
            }
            3 => {
                if !is_txt && fs.len() >= 5 {
                    let mut v = fs.clone();
                    v[1] = "99999999999999999999".into();
                    return (join(&v), "ttl-20-digits");
                }
            }
            4 => {
                if c.rec.rtype == T_A && fs.len() == 5 {
                    let mut v = fs.clone();
                    v[4] = (*src.pick(&["1.2.3.256", "1.2.3", "1.2.3.4.5", "1.2.3..4", "1.2.3.", ".1.2.3", "1.2.3.4x", "a.b.c.d", "-1.2.3.4"])).into();
                    return (join(&v), "bad-ipv4");
                }
            }
            5 => {
                if c.rec.rtype == T_AAAA && fs.len() == 5 {
                    let mut v = fs.clone();
                    v[4] = (*src.pick(&[":::", "1::2::3", "12345::", "g::1", "1:2:3:4:5:6:7", "1:2:3:4:5:6:7:8:9", "::ffff:1.2.3.4", ":"])).into();
                    return (join(&v), "bad-ipv6");
                }
            }
            6 => {
                if c.rec.rtype == T_DS && fs.len() == 8 {
                    let mut v = fs.clone();
                    let kind = match src.below(6) {
                        5 => {
                            // one byte beyond the 65535-byte data limit
                            v[7] = "cd".repeat(65532);
                            "ds-digest-65532"
                        }
                        0 => {
                            v[7].pop();
                            if v[7].is_empty() {
                                continue;
                            }
                            "ds-odd-hex"
                        }
                        1 => {
                            v[7] = format!("{}g0", v[7]);
                            "ds-non-hex"
                        }
                        2 => {
                            v.pop();
                            "ds-empty-digest"
                        }
                        3 => {
                            v[4] = "65536".into();
                            "ds-keytag-overflow"
                        }
                        _ => {
                            v[5] = "256".into();
                            "ds-alg-overflow"
                        }
                    };
                    return (join(&v), kind);
                }
            }
            7 => {
                if is_txt {
                    let q1 = t.find('"');
                    let q2 = t.rfind('"');
                    if let (Some(a), Some(b)) = (q1, q2) {
                        if a != b {
                            let mut s = t.clone();
                            return match src.below(4) {
                                0 => {
                                    s.remove(b);
                                    (s, "txt-missing-closing-quote")
                                }
                                1 => {
                                    s.remove(a);
                                    (s, "txt-missing-opening-quote")
                                }
                                2 => {
                                    s.replace_range(a..=b, "\"\"");
                                    (s, "txt-empty")
                                }
                                _ => {
                                    s.replace_range(a + 1..b, "ab\\256");
                                    (s, "txt-escape-256")
                                }
                            };
                        }
                    }
                }
            }
            8 => {
                // label of 63 / 64 in the owner
                if !fs.is_empty() && !is_txt {
                    let mut v = fs.clone();
                    let l = *src.pick(&[63usize, 64, 70]);
                    v[0] = format!("{}.example.com", "a".repeat(l));
                    return (join(&v), "owner-label-too-long");
                }
            }
            9 => {
                if !fs.is_empty() && !is_txt {
                    let mut v = fs.clone();
                    v[0] = (*src.pick(&["a..b", ".a", "a..", "..", "a.b..c."])).into();
                    return (join(&v), "owner-empty-label");
                }
            }
            10 => {
                if fs.len() >= 5 && !is_txt {
                    let mut v = fs.clone();
                    v[2] = (*src.pick(&["CH", "HS", "ANY", "I", "INN", "1"])).into();
                    return (join(&v), "class-not-in");
                }
            }
            11 => {
                if fs.len() >= 5 && !is_txt {
                    let mut v = fs.clone();
                    v[3] = (*src.pick(&["SRV", "DNAME", "OPT", "RRSIG", "TYPE1", "AA", "A6", "ANY"])).into();
                    return (join(&v), "unsupported-type");
                }
            }
            12 => {
                if c.rec.rtype == T_MX && fs.len() == 6 {
                    let mut v = fs.clone();
                    v[4] = "65536".into();
                    return (join(&v), "mx-pref-overflow");
                }
            }
            13 => {
                if is_soa {
                    if let Some(p) = t.find('(') {
                        let mut s = t.clone();
                        return match src.below(4) {
                            0 => {
                                s.remove(p);
                                (s, "soa-missing-open-paren")
                            }
                            1 => {
                                let e = s.rfind(')').unwrap();
                                s.remove(e);
                                (s, "soa-missing-close-paren")
                            }
                            2 => {
                                let e = s.rfind(')').unwrap();
                                s.insert_str(e, " 7");
                                (s, "soa-six-numbers")
                            }
                            _ => {
                                let e = s.rfind(')').unwrap();
                                s.insert_str(e, " 4294967296");
                                // replaces nothing: six numbers, one overflowing
                                (s, "soa-number-overflow")
                            }
                        };
                    }
                }
            }
            14 => {
                if fs.len() >= 5 && !is_txt {
                    // owner of 254+ text bytes
                    let mut v = fs.clone();
                    let mut n = String::new();
                    while n.len() < 254 {
                        n.push_str("abcdefghij.");
                    }
                    v[0] = n;
                    return (join(&v), "owner-too-long");
                }
            }
            15 => {
                if !is_txt && fs.len() >= 5 {
                    let mut v = fs.clone();
                    v[1] = "-1".into();
                    return (join(&v), "ttl-negative");
                }
            }
            16 => {
                if !is_txt && fs.len() >= 5 {
                    let mut v = fs.clone();
                    v[0] = (*src.pick(&["-a.com", "a_b.com", "a.-b", "exa mple.com", "a@b.com", "é.com"])).into();
                    return (join(&v), "owner-bad-char");
                }
            }
            17 => {
                return (String::new(), "empty-text");
            }
            18 => {
                if !is_txt && !is_soa && fs.len() >= 5 {
                    // missing blank between type and data
                    let mut v = fs.clone();
                    let d = v.remove(4);
                    v[3] = format!("{}{}", v[3], d);
                    return (join(&v), "no-blank-after-type");
                }
            }
            19 => {
                if !is_txt && fs.len() >= 5 {
                    let mut v = fs.clone();
                    v.remove(1);
                    return (join(&v), "ttl-missing");
                }
            }
            20 => {
                if c.rec.rtype == T_A {
                    let mut s = t.clone();
                    s.push_str("\n");
                    return (s, "trailing-newline");
                }
            }
            22 => {
                // the separator between owner and TTL is missing and the owner's last label is as long as a
                // label may be: the digits of the TTL make it too long (a parser that merely stops reading
                // the label there would see a well-formed record)
                if !is_txt && fs.len() >= 5 && fs[1].chars().all(|ch| ch.is_ascii_digit()) {
                    let l = *src.pick(&[62usize, 61, 63]);
                    let prefix = if src.chance(128) { "p." } else { "" };
                    let mut v: Vec<String> = vec![format!("{}{}{}", prefix, "a".repeat(l), fs[1])];
                    v.extend(fs[2..].iter().cloned());
                    if l + fs[1].len() > 63 {
                        return (join(&v), "owner-glued-to-ttl-label-too-long");
                    }
                }
            }
            23 => {
                if fs.len() >= 5 {
                    let mut v = fs.clone();
                    v[0] = format!("{}.example.", "c".repeat(*src.pick(&[63usize, 64, 70, 255])));
                    return (join(&v), "owner-label-too-long");
                }
            }
            _ => {
                if (c.rec.rtype == T_NS || c.rec.rtype == T_CNAME || c.rec.rtype == T_PTR) && fs.len() == 5 {
                    let mut v = fs.clone();
                    v[4] = format!("{}.x", "b".repeat(63));
                    return (join(&v), "target-label-too-long");
                }
            }
        }
    }
    (format!("{} trailing garbage ~", t), "trailing-garbage")
}

//! dnsverif: property-based verification harness for jedisct1/dnssector.
pub mod enc;
pub mod gens;
pub mod history;
pub mod model;
pub mod refdec;
pub mod rrtext;
#[macro_use]
pub mod runner;
pub mod src;
pub mod view;
pub mod props;
pub mod fuzzing;

//! Entry points shared by the libFuzzer targets (fuzz/) and `dnsverif fuzz-replay`.
//! The same oracle functions as the proptest checks run inside the targets, so the
//! fuzzer searches for property violations, not only crashes.

use crate::props::*;
use crate::refdec;
use crate::runner::*;
use crate::src::Src;

fn init() {
    use std::sync::Once;
    static ONCE: Once = Once::new();
    ONCE.call_once(|| {
        std::env::set_var("RUST_LIB_BACKTRACE", "0");
        quiet_panics();
    });
}

/// Raw packet bytes.
pub fn parse_target(data: &[u8]) -> PResult {
    init();
    let mut st = Stats::default();
    // C01 + C02
    parse_props::c02_compare(data, "fuzz", &mut st)?;
    cost_props::bound_check_pub(data)?;
    if let Some(d) = refdec::decode_strict(data) {
        let mut pp = match parse_props::lib_parse(data) {
            Ok(Ok(p)) => p,
            _ => return Ok(()),
        };
        let order = data.len() % 4;
        match catch(|| -> PResult {
            read_props::check_walks(&mut pp, &d, data, order, "C03")?;
            read_props::check_summary(&mut pp, &d, data.len() as u8, "C04", true)
        }) {
            Err(pm) => return Err(Failure::new(format!("C03 walk-panic {}", panic_sig(&pm)), pm)),
            Ok(r) => r?,
        }
        if pp.packet.as_deref() != Some(data) {
            return Err(Failure::new("C03 walk-altered-packet", crate::model::hex_abbrev(data)));
        }
        let seed = [data.len() as u8, 3, 7];
        xform_props::c05_oracle(data, &d, &mut Src::new(&seed), &mut st)?;
        if !d.has_pointer() {
            xform_props::c06_oracle(data, &d, &mut st)?;
        }
    }
    Ok(())
}

pub fn compress_target(data: &[u8]) -> PResult {
    init();
    xform_props::replay_c06(data)?;
    xform_props::replay_c05(data)
}

pub fn rename_target(data: &[u8]) -> PResult {
    init();
    xform_props::replay_c07(data)
}

pub fn ops_target(data: &[u8]) -> PResult {
    init();
    if data.is_empty() {
        return Ok(());
    }
    let rest = &data[1..];
    match data[0] % 4 {
        0 => ops_props::replay_c08(rest),
        1 => ops_props::replay_c09(rest),
        2 => ops_props::replay_c10(rest),
        _ => del_props::replay_c11(rest),
    }
}

pub fn synth_target(data: &[u8]) -> PResult {
    init();
    if data.is_empty() {
        return Ok(());
    }
    let rest = &data[1..];
    match data[0] % 2 {
        0 => synth_props::replay_c13(rest),
        _ => synth_props::replay_c14(rest),
    }
}

pub fn run_target(target: &str, data: &[u8]) -> Option<PResult> {
    Some(match target {
        "parse" => parse_target(data),
        "compress" => compress_target(data),
        "rename" => rename_target(data),
        "ops" => ops_target(data),
        "synth" => synth_target(data),
        _ => return None,
    })
}

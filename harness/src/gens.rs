//! Generators: names, records, messages, packets, damage operators.
//! All choices come from a `Src` (see src.rs).

use crate::enc::{self, Encoded, Layout};
use crate::model::*;
use crate::src::Src;

pub const BASE_LABELS: &[&str] = &[
    "example", "com", "www", "a", "org", "net", "mail", "ns1", "b", "x", "Example", "COM", "_tcp", "host-1", "xn--caf-dma", "z9",
    "EXAMPLE", "Www", "ab", "c", "*",
];

#[derive(Default)]
pub struct NameCtx {
    pub used: Vec<Name>,
}

fn allowed_byte(src: &mut Src) -> u8 {
    // bytes allowed by the label character policy, with a bias to printable ASCII
    loop {
        let c = match src.below(4) {
            0 => *src.pick(b"abcdefghijklmnopqrstuvwxyz0123456789-_"),
            1 => *src.pick(b"ABCDEFXYZ *@!~ "),
            2 => 0x80 | src.u8(),
            _ => src.u8(),
        };
        if label_char_ok(c) {
            return c;
        }
        if src.exhausted() {
            return b'a';
        }
    }
}

pub fn gen_label(src: &mut Src) -> Vec<u8> {
    match src.weighted(&[10, 4, 1, 1]) {
        0 => src.pick(BASE_LABELS).as_bytes().to_vec(),
        1 => {
            let n = src.range(1, 12);
            (0..n).map(|_| allowed_byte(src)).collect()
        }
        2 => {
            let n = *src.pick(&[63usize, 62, 61, 40]);
            (0..n).map(|_| allowed_byte(src)).collect()
        }
        _ => vec![allowed_byte(src)],
    }
}

fn flip_case(src: &mut Src, n: &Name) -> Name {
    Name(
        n.0.iter()
            .map(|l| l.iter().map(|&c| if c.is_ascii_alphabetic() && src.chance(100) { c ^ 0x20 } else { c }).collect())
            .collect(),
    )
}

/// The name with bit 5 of one non-letter byte flipped (`@`/`` ` ``, `[`/`{`, 0xC9/0xE9, ...): not equal
/// to the original under ASCII case folding, but equal under `(a ^ b) & !0x20 == 0` or a 0x5f mask.
pub fn bit5_twin(src: &mut Src, n: &Name) -> Option<Name> {
    let mut spots = vec![];
    for (li, l) in n.0.iter().enumerate() {
        for (bi, &c) in l.iter().enumerate() {
            if !c.is_ascii_alphabetic() && label_char_ok(c ^ 0x20) {
                spots.push((li, bi));
            }
        }
    }
    if spots.is_empty() {
        return None;
    }
    let (li, bi) = *src.pick(&spots);
    let mut t = n.clone();
    t.0[li][bi] ^= 0x20;
    Some(t)
}

/// Truncate a name (drop leading labels) until it fits in 255 wire bytes.
pub fn fit(mut n: Name) -> Name {
    while n.wire_len() > 255 {
        n.0.remove(0);
    }
    n
}

pub fn gen_name(src: &mut Src, ctx: &mut NameCtx) -> Name {
    let w = if ctx.used.is_empty() { [0, 0, 0, 10, 3, 1, 1] } else { [8, 6, 2, 6, 2, 1, 1] };
    let n = match src.weighted(&w) {
        0 => src.pick(&ctx.used).clone(),
        1 => {
            // extend an existing name with 1..3 leading labels (shared suffix)
            let base = src.pick(&ctx.used).clone();
            let k = src.range(1, 3);
            let mut ls: Vec<Vec<u8>> = (0..k).map(|_| gen_label(src)).collect();
            ls.extend(base.0);
            fit(Name(ls))
        }
        2 => {
            let base = src.pick(&ctx.used).clone();
            if src.chance(64) {
                // a different name that a sloppy case fold would take for the same one
                bit5_twin(src, &base).unwrap_or(base)
            } else {
                flip_case(src, &base)
            }
        }
        3 => {
            let k = src.range(1, 4);
            Name((0..k).map(|_| gen_label(src)).collect())
        }
        4 => {
            // a suffix of an existing name or of a fresh one
            let base = if ctx.used.is_empty() { Name::from_dotted("a.b.example.com") } else { src.pick(&ctx.used).clone() };
            if base.0.is_empty() {
                base
            } else {
                let i = src.below(base.0.len());
                Name(base.0[i..].to_vec())
            }
        }
        5 => gen_boundary_name(src),
        _ => Name::root(),
    };
    if !n.is_root() && !ctx.used.contains(&n) && ctx.used.len() < 64 {
        ctx.used.push(n.clone());
    }
    n
}

pub fn gen_boundary_name(src: &mut Src) -> Name {
    match src.below(5) {
        0 => {
            // wire length exactly 253, 254 or 255
            let target = *src.pick(&[255usize, 254, 253]);
            name_of_wire_len(src, target)
        }
        1 => Name((0..127).map(|_| vec![allowed_byte(src)]).collect()),
        2 => {
            // deep suffix chain a_k. ... .a_1.z
            let k = src.range(1, 40);
            let mut ls: Vec<Vec<u8>> = (0..k).map(|i| format!("s{}", k - i).into_bytes()).collect();
            ls.push(b"z".to_vec());
            Name(ls)
        }
        3 => Name(vec![(0..63).map(|_| allowed_byte(src)).collect()]),
        _ => Name(vec![vec![allowed_byte(src)]]),
    }
}

pub fn name_of_wire_len(src: &mut Src, target: usize) -> Name {
    // labels of 63 until the rest fits
    let mut remaining = target - 1; // root
    let mut ls = vec![];
    while remaining > 0 {
        let l = if remaining >= 64 { 63 } else { remaining - 1 };
        if l == 0 {
            // cannot have a zero-length label: steal one byte from the previous label
            let last: &mut Vec<u8> = ls.last_mut().unwrap();
            last.pop();
            ls.push(vec![allowed_byte(src)]);
            break;
        }
        ls.push((0..l).map(|_| allowed_byte(src)).collect::<Vec<u8>>());
        remaining -= l + 1;
    }
    Name(ls)
}

pub const OPAQUE_TYPES: &[u16] = &[16, 13, 43, 46, 48, 99, 255, 0, 65280, 257, 3, 10];

fn gen_blob(src: &mut Src, max: usize) -> Vec<u8> {
    let n = match src.weighted(&[8, 4, 1]) {
        0 => src.below(12.min(max + 1)),
        1 => src.below(80.min(max + 1)),
        _ => src.below(max + 1),
    };
    (0..n)
        .map(|_| match src.below(4) {
            0 => 0xc0,
            1 => 0x0c,
            _ => src.u8(),
        })
        .collect()
}

/// IPv6 address: random, or one of the shapes address libraries treat specially (IPv4-mapped,
/// IPv4-compatible, NAT64, unspecified, loopback, link-local, multicast, all ones).
pub fn gen_v6(src: &mut Src) -> [u8; 16] {
    let mut a = [0u8; 16];
    match src.weighted(&[8, 3, 1, 1, 1, 1, 1, 1, 1]) {
        0 => {
            for b in a.iter_mut() {
                *b = src.u8();
            }
        }
        1 => {
            a[10] = 0xff;
            a[11] = 0xff;
            for b in a[12..].iter_mut() {
                *b = src.u8();
            }
        }
        2 => {
            for b in a[12..].iter_mut() {
                *b = src.u8();
            }
        }
        3 => {
            a[1] = 0x64;
            a[2] = 0xff;
            a[3] = 0x9b;
            for b in a[12..].iter_mut() {
                *b = src.u8();
            }
        }
        4 => {}
        5 => a[15] = 1,
        6 => {
            a[0] = 0xfe;
            a[1] = 0x80;
            a[15] = src.u8();
        }
        7 => {
            a[0] = 0xff;
            a[1] = 0x02;
            a[15] = src.u8();
        }
        _ => a = [0xff; 16],
    }
    a
}

pub fn gen_record(src: &mut Src, ctx: &mut NameCtx) -> Record {
    let owner = gen_name(src, ctx);
    let class = if src.chance(32) { src.u16() } else { 1 };
    let ttl = match src.below(4) {
        0 => 0,
        1 => 0xffff_ffff,
        _ => src.u32(),
    };
    let (rtype, rdata) = match src.weighted(&[10, 5, 8, 6, 4, 6, 6, 3, 6, 3]) {
        0 => (T_A, Rdata::A([src.u8(), src.u8(), src.u8(), src.u8()])),
        1 => {
            (T_AAAA, Rdata::Aaaa(gen_v6(src)))
        }
        2 => (T_NS, Rdata::Name1(gen_name(src, ctx))),
        3 => (T_CNAME, Rdata::Name1(gen_name(src, ctx))),
        4 => (T_PTR, Rdata::Name1(gen_name(src, ctx))),
        5 => (T_MX, Rdata::Mx(*src.pick(&[0u16, 10, 65535, 0xc00c]), gen_name(src, ctx))),
        6 => {
            let a = gen_name(src, ctx);
            let b = gen_name(src, ctx);
            let f: Vec<u8> = if src.chance(128) { src.bytes(20) } else { vec![0xc0; 20] };
            (T_SOA, Rdata::Soa(a, b, f))
        }
        7 => {
            // DNAME target: pointer-free, may hold any bytes
            let mut n = gen_name(src, ctx);
            if src.chance(64) && !n.0.is_empty() {
                let i = src.below(n.0.len());
                let evil = *src.pick(&[b'.', b'\\', 0u8, 0x1f, 0x7f, b'a']);
                n.0[i].push(evil);
                if n.0[i].len() > 63 {
                    n.0[i].truncate(63);
                }
                n = fit(n);
            }
            (T_DNAME, Rdata::Dname(n))
        }
        8 if src.chance(90) => {
            // types the library treats as opaque, filled with what their specifications put there: names
            // (literal, or ending in a pointer to the question name at offset 12), bitmaps, fixed fields.
            // The library must copy them verbatim; a later version that starts to understand one of them
            // meets realistic data here.
            let n = gen_name(src, ctx);
            let mut lit = n.to_wire();
            let mut ptr: Vec<u8> = if n.is_root() { vec![] } else { n.0[0].clone() };
            if !ptr.is_empty() {
                ptr.insert(0, ptr.len() as u8);
            }
            ptr.extend_from_slice(&[0xc0, 0x0c]);
            let name = if src.chance(128) { lit.clone() } else { ptr };
            match src.below(6) {
                0 => {
                    // SRV: priority, weight, port, target
                    let mut d = src.bytes(6);
                    d.extend(name);
                    (T_SRV, Rdata::Opaque(d))
                }
                1 => {
                    // NSEC: next name, then type-bitmap windows
                    let mut d = std::mem::take(&mut lit);
                    for w in 0..src.range(0, 3) {
                        let l = src.range(1, 32);
                        d.push(w as u8);
                        d.push(l as u8);
                        d.extend(src.bytes(l));
                    }
                    (47, Rdata::Opaque(d))
                }
                2 => {
                    // RRSIG: 18 fixed bytes, signer name, signature
                    let mut d = src.bytes(18);
                    d.extend(name);
                    let k = src.range(0, 64);
                    d.extend(src.bytes(k));
                    (46, Rdata::Opaque(d))
                }
                3 => {
                    // MINFO / RP: two names
                    let mut d = name.clone();
                    d.extend(name);
                    (*src.pick(&[14u16, 17]), Rdata::Opaque(d))
                }
                4 => (*src.pick(&[3u16, 4, 7, 8, 9, 18, 21, 36]), Rdata::Opaque({
                    // MD MF MB MG MR AFSDB RT KX: (16-bit field +) one name
                    let mut d = if src.chance(128) { vec![0, 10] } else { vec![] };
                    d.extend(name);
                    d
                })),
                _ => {
                    // SVCB / HTTPS: priority, target, parameters
                    let mut d = vec![0, 1];
                    d.extend(name);
                    d.extend_from_slice(&[0, 1, 0, 3, 2, b'h', b'2']);
                    (*src.pick(&[64u16, 65]), Rdata::Opaque(d))
                }
            }
        }
        8 => {
            let t = *src.pick(OPAQUE_TYPES);
            (t, Rdata::Opaque(gen_blob(src, 300)))
        }
        _ => {
            // SRV-like: 6 bytes then a literal name
            let mut d = src.bytes(6);
            let n = gen_name(src, ctx);
            d.extend(n.to_wire());
            (T_SRV, Rdata::Opaque(d))
        }
    };
    Record { owner, rtype, class, ttl, rdata }
}

pub fn gen_opt(src: &mut Src) -> Record {
    let nopts = match src.weighted(&[6, 6, 3, 1]) {
        0 => 0,
        1 => 1,
        2 => src.range(2, 4),
        _ => src.range(5, 40),
    };
    let opts = (0..nopts)
        .map(|_| {
            let code = *src.pick(&[8u16, 10, 12, 3, 0, 65535]);
            let data = match src.below(5) {
                0 => vec![],
                1 => {
                    let k = src.range(1, 8);
                    src.bytes(k)
                }
                2 => gen_blob(src, 60),
                // the library treats option data as opaque; a later version may not: the data is often what
                // the option's own specification asks for (client subnet, cookie, padding)
                _ => match code {
                    8 => {
                        let v6 = src.chance(100);
                        let prefix = if v6 { *src.pick(&[0u8, 48, 56, 64, 128]) } else { *src.pick(&[0u8, 8, 20, 24, 32]) };
                        let mut d = vec![0, if v6 { 2 } else { 1 }, prefix, 0];
                        for _ in 0..(prefix as usize + 7) / 8 {
                            d.push(src.u8());
                        }
                        d
                    }
                    10 => {
                        let k = *src.pick(&[8usize, 16, 24, 40]);
                        src.bytes(k)
                    }
                    12 => vec![0; *src.pick(&[0usize, 1, 31, 128])],
                    _ => src.bytes(4),
                },
            };
            (code, data)
        })
        .collect();
    let udp = *src.pick(&[4096u16, 512, 1232, 0, 65535]);
    let ttl = match src.below(4) {
        0 => 0,
        1 => 0x0000_8000,
        _ => src.u32(),
    };
    Record { owner: Name::root(), rtype: T_OPT, class: udp, ttl, rdata: Rdata::Opt(opts) }
}

#[derive(Clone, Copy, Debug, PartialEq, Eq)]
pub enum OptMode {
    Any,
    Never,
    Always,
}

#[derive(Clone, Debug)]
pub struct GenOpts {
    pub opt: OptMode,
    /// allow huge records / packets beyond 8192 and 65535 bytes
    pub big: bool,
    /// force QR
    pub response: Option<bool>,
    /// maximum ordinary section size drawn most of the time
    pub max_small: usize,
    /// allow sections of 30..300 records occasionally
    pub many: bool,
    pub header_names: bool,
    /// chance (out of 256) of adding big filler records when `big`
    pub filler_chance: u32,
}

impl Default for GenOpts {
    fn default() -> Self {
        GenOpts { opt: OptMode::Any, big: true, response: None, max_small: 6, many: true, header_names: true, filler_chance: 10 }
    }
}

fn gen_count(src: &mut Src, o: &GenOpts) -> usize {
    match src.weighted(&[10, 12, 1]) {
        0 => 0,
        1 => src.range(1, o.max_small.max(1)),
        _ => {
            if o.many {
                src.range(7, 300)
            } else {
                src.range(1, o.max_small.max(1))
            }
        }
    }
}

/// Where the OPT record sits in the additional section.
#[derive(Clone, Copy, Debug, PartialEq, Eq, Hash, PartialOrd, Ord)]
pub enum OptPos {
    Absent,
    Only,
    First,
    Middle,
    Last,
}

pub fn opt_pos(m: &Message) -> OptPos {
    match m.opt_index() {
        None => OptPos::Absent,
        Some(i) => {
            if m.ar.len() == 1 {
                OptPos::Only
            } else if i == 0 {
                OptPos::First
            } else if i == m.ar.len() - 1 {
                OptPos::Last
            } else {
                OptPos::Middle
            }
        }
    }
}

pub fn gen_message(src: &mut Src, o: &GenOpts) -> Message {
    let mut ctx = NameCtx::default();
    let mut id = src.u16();
    let mut flags = match src.below(4) {
        0 => 0x0100,
        1 => 0x8180,
        _ => src.u16(),
    };
    if let Some(r) = o.response {
        flags = if r { flags | 0x8000 } else { flags & 0x7fff };
    }
    // header bytes forming a label sequence (pointer-into-header shapes)
    if o.header_names && src.chance(40) {
        match src.below(4) {
            0 => {
                // id = 01 'a', flags high byte 0 => name "a" at offset 0 (query only)
                if o.response != Some(true) {
                    id = 0x0100 | allowed_byte(src) as u16;
                    flags &= 0x00ff;
                }
            }
            1 => {
                // offset 0: label of 3 bytes: id low, flags hi, flags lo; then qdcount hi = 0
                id = 0x0300 | allowed_byte(src) as u16;
                let mut fh = allowed_byte(src);
                match o.response {
                    Some(true) => fh |= 0x80,
                    Some(false) => fh = (fh & 0x7f).max(0x20),
                    None => {}
                }
                let fl = allowed_byte(src);
                if label_char_ok(fh) && label_char_ok(fl) {
                    flags = ((fh as u16) << 8) | fl as u16;
                }
            }
            2 => {
                // offset 1: id low = 2: label = flags hi, flags lo
                id = (id & 0xff00) | 0x02;
                let mut fh = allowed_byte(src);
                match o.response {
                    Some(true) => fh |= 0x80,
                    Some(false) => fh = (fh & 0x7f).max(0x20),
                    None => {}
                }
                let fl = allowed_byte(src);
                if label_char_ok(fh) && label_char_ok(fl) {
                    flags = ((fh as u16) << 8) | fl as u16;
                }
            }
            _ => {
                // offset 2: flags hi = 1: label = flags lo (query, opcode 0)
                if o.response != Some(true) {
                    flags = 0x0100 | allowed_byte(src) as u16;
                }
            }
        }
    }
    let qr = flags & 0x8000 != 0;
    let (nan, nns) = if qr { (gen_count(src, o), gen_count(src, o)) } else { (0, 0) };
    let mut nar = gen_count(src, o);
    let with_opt = match o.opt {
        OptMode::Never => false,
        OptMode::Always => true,
        OptMode::Any => src.chance(150),
    };
    if with_opt && nar == 0 && src.chance(128) {
        nar = src.range(0, 3);
    }
    // header names depend on the counts (they are header bytes too)
    if o.header_names {
        let counts = [1u16, nan as u16, nns as u16, (nar + with_opt as usize) as u16];
        for n in enc::header_names(id, flags, counts) {
            ctx.used.push(n);
        }
    }
    let qname = gen_name(src, &mut ctx);
    let qtype = *src.pick(&[1u16, 28, 15, 255, 6, 2, 12, 16, 41, 0]);
    let mut m = Message { id, flags, qd: vec![Question { name: qname, qtype, qclass: 1 }], ..Default::default() };
    for _ in 0..nan {
        m.an.push(gen_record(src, &mut ctx));
    }
    for _ in 0..nns {
        m.ns.push(gen_record(src, &mut ctx));
    }
    for _ in 0..nar {
        m.ar.push(gen_record(src, &mut ctx));
    }
    if with_opt {
        let pos = match src.below(3) {
            0 => m.ar.len(),
            1 => 0,
            _ => src.below(m.ar.len() + 1),
        };
        m.ar.insert(pos, gen_opt(src));
    }
    if o.big && src.chance(o.filler_chance) {
        // filler: push later names beyond offset 16383 / packet beyond 8192 / 65535
        let k = src.range(1, 3);
        for _ in 0..k {
            // incl. the ten largest data lengths (record length beyond 16 bits) and their neighbours
            let size = *src.pick(&[9000usize, 17000, 30000, 65000, 3000, 8050, 7900, 65535, 65534, 65526, 65525, 65524, 65500]);
            let mut d = vec![0xc0u8; size];
            d[0] = src.u8();
            let r = Record { owner: gen_name(src, &mut ctx), rtype: T_TXT, class: 1, ttl: 7, rdata: Rdata::Opaque(d) };
            if qr && src.chance(128) {
                let at = src.below(m.an.len() + 1);
                m.an.insert(at, r);
            } else {
                let at = src.below(m.ar.len() + 1);
                m.ar.insert(at, r);
            }
        }
    }
    m
}

/// Generated valid packet: message, wire encoding with offset map.
pub fn gen_packet(src: &mut Src, o: &GenOpts) -> (Message, Encoded) {
    if src.chance(10) {
        // pointer ladders: 17..26 records sharing one or two names, each pointing at the deepest
        // earlier occurrence: chains of exactly 1..16 pointers
        let mut ctx = NameCtx::default();
        let n1 = gen_name(src, &mut ctx);
        let n1 = if n1.is_root() { Name::from_dotted("ladder.example") } else { n1 };
        let mut n2 = Name(vec![gen_label(src)]);
        n2.0.extend(n1.0.clone());
        let n2 = fit(n2);
        let qr = o.response != Some(false);
        let k = src.range(17, 26);
        let mut m = Message { id: src.u16(), flags: if qr { 0x8400 } else { 0x0100 }, qd: vec![Question { name: n1.clone(), qtype: 1, qclass: 1 }], ..Default::default() };
        for i in 0..k {
            let owner = if src.chance(60) { n2.clone() } else { n1.clone() };
            let r = match src.below(4) {
                0 => Record { owner, rtype: T_NS, class: 1, ttl: i as u32, rdata: Rdata::Name1(n1.clone()) },
                1 => Record { owner, rtype: T_MX, class: 1, ttl: i as u32, rdata: Rdata::Mx(1, n1.clone()) },
                _ => Record { owner, rtype: T_A, class: 1, ttl: i as u32, rdata: Rdata::A([1, 1, 1, i as u8]) },
            };
            if qr && src.chance(170) {
                m.an.push(r);
            } else {
                m.ar.push(r);
            }
        }
        if o.opt != OptMode::Never && src.chance(100) {
            let at = src.below(m.ar.len() + 1);
            m.ar.insert(at, gen_opt(src));
        }
        let e = enc::encode(&m, Layout::Deepest);
        return (m, e);
    }
    let m = gen_message(src, o);
    let literal = src.chance(40);
    let e = if literal { enc::encode(&m, Layout::Literal) } else { enc::encode(&m, Layout::Random(src)) };
    (m, e)
}

pub fn gen_packet_literal(src: &mut Src, o: &GenOpts) -> (Message, Encoded) {
    let m = gen_message(src, o);
    let e = enc::encode(&m, Layout::Literal);
    (m, e)
}

// ---------------------------------------------------------------------------
// Damage operators
// ---------------------------------------------------------------------------

fn put16(b: &mut [u8], o: usize, v: u16) {
    b[o] = (v >> 8) as u8;
    b[o + 1] = v as u8;
}
fn get16(b: &[u8], o: usize) -> u16 {
    ((b[o] as u16) << 8) | b[o + 1] as u16
}

/// All structural offsets of an encoded packet.
pub fn structural_offsets(e: &Encoded) -> Vec<usize> {
    let mut v = vec![0, 2, 4, 6, 8, 10, 12];
    if let Some(q) = &e.q {
        v.extend([q.start, q.name_end, q.end]);
    }
    for s in &e.recs {
        for r in s {
            v.extend([r.start, r.name_end, r.name_end + 2, r.name_end + 8, r.rdata_start, r.end]);
        }
    }
    v.push(e.bytes.len());
    v.sort();
    v.dedup();
    v
}

/// Apply one damage operator; returns its name.
pub fn damage(src: &mut Src, m: &Message, e: &Encoded, b: &mut Vec<u8>) -> &'static str {
    let all_recs: Vec<(usize, usize)> = (0..3).flat_map(|s| (0..e.recs[s].len()).map(move |i| (s, i))).collect();
    let pick_rec = |src: &mut Src| -> Option<(usize, usize)> {
        if all_recs.is_empty() {
            None
        } else {
            Some(all_recs[src.below(all_recs.len())])
        }
    };
    let nops = 26;
    let op = src.below(nops);
    match op {
        16 => {
            // truncate at a structural boundary +-1
            let mut offs = structural_offsets(e);
            offs.reverse();
            let o = *src.pick(&offs);
            let d = src.below(3) as isize - 1;
            let cut = (o as isize + d).clamp(0, b.len() as isize) as usize;
            b.truncate(cut);
            "truncate"
        }
        1 => {
            // bump / drop one count
            if b.len() >= 12 {
                let o = 4 + 2 * src.below(4);
                let v = get16(b, o);
                let nv = match src.below(4) {
                    0 => v.wrapping_add(1),
                    1 => v.wrapping_sub(1),
                    2 => 0,
                    _ => src.u16(),
                };
                put16(b, o, nv);
            }
            "count"
        }
        2 => {
            // rdlen +-1..3
            if let Some((s, i)) = pick_rec(src) {
                let r = &e.recs[s][i];
                if r.name_end + 10 <= b.len() {
                    let v = get16(b, r.name_end + 8);
                    let d = src.range(1, 3) as u16;
                    put16(b, r.name_end + 8, if src.chance(128) { v.wrapping_add(d) } else { v.wrapping_sub(d) });
                }
            }
            "rdlen"
        }
        3 => {
            // overwrite a label length byte
            let starts = name_starts(e, m);
            if !starts.is_empty() {
                let o = *src.pick(&starts);
                if o < b.len() {
                    b[o] = *src.pick(&[64u8, 0xbf, 0xc0, 0, 0x80, 63, 1, 0xff]);
                }
            }
            "label-len"
        }
        4 => {
            // splice a pointer at a name start: forward / self / into own name / to root / header
            let starts = name_starts(e, m);
            if !starts.is_empty() {
                let o = *src.pick(&starts);
                if o + 1 < b.len() {
                    let target = match src.below(7) {
                        0 => o,
                        1 => o + 1,
                        2 => o + 2 + src.below(30),
                        3 => o.saturating_sub(1),
                        4 => src.below(12),
                        5 => src.below(o.max(1)),
                        _ => {
                            // a zero byte somewhere before
                            (0..o).rev().find(|&i| b[i] == 0).unwrap_or(4)
                        }
                    } & 0x3fff;
                    b[o] = 0xc0 | (target >> 8) as u8;
                    b[o + 1] = target as u8;
                }
            }
            "pointer"
        }
        5 => {
            // inject a forbidden / boundary character into a label
            let starts = name_starts(e, m);
            if !starts.is_empty() {
                let o = *src.pick(&starts);
                if o + 1 < b.len() && b[o] > 0 && b[o] < 64 {
                    let k = src.below(b[o] as usize);
                    if o + 1 + k < b.len() {
                        b[o + 1 + k] = *src.pick(&[0u8, 0x1f, 0x7f, b'.', b'\\', 0x20, 0x7e, 0x80, 0xff, 9, 10]);
                    }
                }
            }
            "char"
        }
        6 => {
            // wrong qclass
            if let Some(q) = &e.q {
                if q.name_end + 4 <= b.len() {
                    put16(b, q.name_end + 2, *src.pick(&[0u16, 2, 3, 255, 256]));
                }
            }
            "qclass"
        }
        7 => {
            // second question
            if let Some(q) = &e.q {
                if q.end <= b.len() {
                    let qb = b[q.start..q.end].to_vec();
                    let at = q.end;
                    b.splice(at..at, qb);
                    put16(b, 4, 2);
                }
            }
            "two-questions"
        }
        8 => {
            // move the OPT record into AN or NS by changing counts
            if m.opt_index().is_some() && b.len() >= 12 {
                let ar = get16(b, 10);
                let ns = get16(b, 8);
                put16(b, 8, ns.wrapping_add(ar));
                put16(b, 10, 0);
                b[2] |= 0x80;
            }
            "opt-section"
        }
        9 => {
            // OPT with a non-root owner
            if let Some(i) = m.opt_index() {
                let r = &e.recs[2][i];
                if r.start < b.len() {
                    let ins: &[u8] = if src.chance(128) { &[1, b'a'] } else { &[0xc0, 0x0c] };
                    if ins[0] == 0xc0 {
                        b.splice(r.start..r.start + 1, ins.iter().copied());
                    } else {
                        b.splice(r.start..r.start, ins.iter().copied());
                    }
                }
            }
            "opt-owner"
        }
        10 => {
            // second OPT
            if let Some(i) = m.opt_index() {
                let r = &e.recs[2][i];
                if r.end <= b.len() && b.len() >= 12 {
                    let rb = b[r.start..r.end].to_vec();
                    b.extend(rb);
                    let ar = get16(b, 10);
                    put16(b, 10, ar.wrapping_add(1));
                }
            } else if b.len() >= 12 {
                // or add a first OPT (valid) at the end
                let w = gen_opt(src).to_wire();
                b.extend(w);
                let ar = get16(b, 10);
                put16(b, 10, ar.wrapping_add(1));
            }
            "opt-dup-or-add"
        }
        11 => {
            // option length off by 1..4 / header-only option
            if let Some(i) = m.opt_index() {
                let r = &e.recs[2][i];
                if r.rdata_start + 4 <= r.end && r.end <= b.len() {
                    let v = get16(b, r.rdata_start + 2);
                    let d = src.range(1, 4) as u16;
                    put16(b, r.rdata_start + 2, if src.chance(128) { v.wrapping_add(d) } else { v.wrapping_sub(d) });
                } else if r.end <= b.len() && r.name_end + 10 <= b.len() {
                    // empty option list: claim 1..3 bytes of options
                    let k = src.range(1, 3);
                    put16(b, r.name_end + 8, k as u16);
                    let at = r.end;
                    b.splice(at..at, std::iter::repeat(0).take(k));
                }
            }
            "option-len"
        }
        12 => {
            let k = src.range(1, 3);
            for _ in 0..k {
                b.push(src.u8());
            }
            "trailing"
        }
        13 => {
            // rdata of A/AAAA/NS/MX/SOA one byte short/long (with consistent rdlen)
            if let Some((s, i)) = pick_rec(src) {
                let r = &e.recs[s][i];
                if r.end <= b.len() && r.name_end + 10 <= b.len() {
                    let v = get16(b, r.name_end + 8);
                    if src.chance(128) {
                        b.insert(r.end, src.u8());
                        put16(b, r.name_end + 8, v.wrapping_add(1));
                    } else if r.end > r.rdata_start {
                        b.remove(r.end - 1);
                        put16(b, r.name_end + 8, v.wrapping_sub(1));
                    }
                }
            }
            "rdata-size"
        }
        14 => {
            // change a record type in place (keeps rdata): e.g. TXT -> A, NS -> DNAME
            if let Some((s, i)) = pick_rec(src) {
                let r = &e.recs[s][i];
                if r.name_end + 2 <= b.len() {
                    put16(b, r.name_end, *src.pick(&[1u16, 2, 5, 6, 12, 15, 28, 39, 41, 16]));
                }
            }
            "retype"
        }
        15 => {
            // QR flip
            if b.len() >= 3 {
                b[2] ^= 0x80;
            }
            "qr-flip"
        }
        0 => {
            // blind byte flip
            if !b.is_empty() {
                let k = src.range(1, 3);
                for _ in 0..k {
                    let o = src.below(b.len());
                    b[o] ^= 1 << src.below(8);
                }
            }
            "bitflip"
        }
        17 => {
            if !b.is_empty() {
                let o = src.below(b.len());
                b.insert(o, src.u8());
            }
            "insert-byte"
        }
        18 => {
            if !b.is_empty() {
                let o = src.below(b.len());
                b.remove(o);
            }
            "delete-byte"
        }
        19 => {
            if !b.is_empty() {
                let o = src.below(b.len());
                b[o] = *src.pick(&[0u8, 0xc0, 0xff, 0x3f, 0x40, 12, 1]);
            }
            "set-byte"
        }
        20 => {
            // pointer loop of 2..17 pointers appended in an extra record's owner (AR count +1)
            if b.len() >= 12 && b.len() + 40 < 0x3fff {
                let k = src.range(2, 17);
                let base = b.len();
                // k pointers, pointer j at base+2j points to base+2(j+1) (forward) or cyclic backward
                let backward = src.chance(128);
                for j in 0..k {
                    let t = if backward { base + 2 * ((j + k - 1) % k) } else { base + 2 * ((j + 1) % k) };
                    b.push(0xc0 | (t >> 8) as u8);
                    b.push(t as u8);
                }
                b.extend_from_slice(&[0, 1, 0, 1, 0, 0, 0, 0, 0, 4, 1, 2, 3, 4]);
                let ar = get16(b, 10);
                put16(b, 10, ar.wrapping_add(1));
            }
            "pointer-loop"
        }
        21 => {
            // descending pointer chain of 15..18 pointers appended as extra AR records.
            // chain element j (record j) has owner = pointer to record j-1's owner; first owner literal.
            if b.len() >= 12 && b.len() + 400 < 0x3fff {
                let k = *src.pick(&[16usize, 17, 15, 18]);
                let mut prev = b.len();
                b.extend_from_slice(&[1, b'q', 0]);
                b.extend_from_slice(&[0, 1, 0, 1, 0, 0, 0, 0, 0, 4, 1, 2, 3, 4]);
                for _ in 0..k {
                    let at = b.len();
                    b.push(0xc0 | (prev >> 8) as u8);
                    b.push(prev as u8);
                    b.extend_from_slice(&[0, 1, 0, 1, 0, 0, 0, 0, 0, 4, 1, 2, 3, 4]);
                    prev = at;
                }
                let ar = get16(b, 10);
                put16(b, 10, ar.wrapping_add(k as u16 + 1));
            }
            "pointer-chain"
        }
        22 => {
            // name made too long: append an AR record whose owner is 4 x 63 + more
            if b.len() >= 12 {
                let total = *src.pick(&[256usize, 255, 257]);
                let n = name_of_wire_len(src, total.min(255));
                let mut w = n.to_wire();
                if total > 255 {
                    // lengthen the first label region by inserting an extra label
                    let extra = total - 255;
                    let mut ins = vec![extra as u8 - 1];
                    ins.extend(std::iter::repeat(b'x').take(extra - 1));
                    if extra == 1 {
                        // cannot add a 0-length label: grow the last label instead if possible
                        w = name_of_wire_len(src, 255).to_wire();
                        let last_len_pos = {
                            let mut i = 0;
                            let mut lastp = 0;
                            while w[i] != 0 {
                                lastp = i;
                                i += 1 + w[i] as usize;
                            }
                            lastp
                        };
                        if w[last_len_pos] < 63 {
                            w[last_len_pos] += 1;
                            let at = last_len_pos + 1;
                            w.insert(at, b'y');
                        } else {
                            w.splice(0..0, [1u8, b'y']);
                        }
                    } else {
                        w.splice(0..0, ins);
                    }
                }
                b.extend(w);
                b.extend_from_slice(&[0, 1, 0, 1, 0, 0, 0, 0, 0, 4, 1, 2, 3, 4]);
                let ar = get16(b, 10);
                put16(b, 10, ar.wrapping_add(1));
            }
            "long-name"
        }
        23 => {
            // name too long through a pointer: label(s) + pointer to a long earlier name
            if b.len() >= 12 && b.len() + 600 < 0x3fff {
                let wl = *src.pick(&[255usize, 250, 200]);
                let n = name_of_wire_len(src, wl);
                let at = b.len();
                b.extend(n.to_wire());
                b.extend_from_slice(&[0, 1, 0, 1, 0, 0, 0, 0, 0, 4, 1, 2, 3, 4]);
                let k = src.range(1, 8);
                b.push(k as u8);
                b.extend(std::iter::repeat(b'p').take(k));
                b.push(0xc0 | (at >> 8) as u8);
                b.push(at as u8);
                b.extend_from_slice(&[0, 1, 0, 1, 0, 0, 0, 0, 0, 4, 1, 2, 3, 4]);
                let ar = get16(b, 10);
                put16(b, 10, ar.wrapping_add(2));
            }
            "long-name-via-pointer"
        }
        24 => {
            // DNAME whose target holds a pointer / a forbidden byte, appended to AR
            if b.len() >= 12 {
                b.extend_from_slice(&[1, b'd', 0, 0, 39, 0, 1, 0, 0, 0, 0]);
                let rd: Vec<u8> = match src.below(3) {
                    0 => vec![1, b'a', 0xc0, 0x0c],
                    1 => vec![2, b'.', 0, 0],
                    _ => vec![0xc0, 0x0c],
                };
                b.extend_from_slice(&(rd.len() as u16).to_be_bytes());
                b.extend(rd);
                let ar = get16(b, 10);
                put16(b, 10, ar.wrapping_add(1));
            }
            "dname"
        }
        _ => {
            // segment overrun / straddle shapes appended as AR records
            if b.len() >= 12 && b.len() + 64 < 0x3fff {
                let at = b.len();
                // record 1: owner "ab" literal
                b.extend_from_slice(&[2, b'a', b'b', 0]);
                b.extend_from_slice(&[0, 1, 0, 1, 0, 0, 0, 0, 0, 4, 1, 2, 3, 4]);
                let r2 = b.len();
                // record 2: owner = pointer to `at` (fine)
                b.push(0xc0 | (at >> 8) as u8);
                b.push(at as u8);
                b.extend_from_slice(&[0, 1, 0, 1, 0, 0, 0, 0, 0, 4, 1, 2, 3, 4]);
                // record 3: owner = label + pointer to r2 (chain), fine; or overrun: pointer into the middle
                let t = match src.below(3) {
                    0 => r2,
                    1 => at + 1, // middle of label: 'a'=0x61 > 63 => reject
                    _ => r2 + 1, // second byte of a pointer
                };
                b.extend_from_slice(&[1, b'c']);
                b.push(0xc0 | (t >> 8) as u8);
                b.push(t as u8);
                b.extend_from_slice(&[0, 1, 0, 1, 0, 0, 0, 0, 0, 4, 1, 2, 3, 4]);
                let ar = get16(b, 10);
                put16(b, 10, ar.wrapping_add(3));
            }
            "chain-shapes"
        }
    }
}

/// Offsets at which label-length bytes (or pointers) of names sit.
pub fn name_starts(e: &Encoded, m: &Message) -> Vec<usize> {
    let b = &e.bytes;
    let mut v = vec![];
    let walk = |mut o: usize, v: &mut Vec<usize>| loop {
        if o >= b.len() {
            break;
        }
        v.push(o);
        let l = b[o];
        if l == 0 || l & 0xc0 != 0 {
            break;
        }
        o += 1 + l as usize;
    };
    if let Some(q) = &e.q {
        walk(q.start, &mut v);
    }
    for s in 0..3 {
        for (i, r) in e.recs[s].iter().enumerate() {
            walk(r.start, &mut v);
            match &m.section(s + 1)[i].rdata {
                Rdata::Name1(_) | Rdata::Dname(_) => walk(r.rdata_start, &mut v),
                Rdata::Mx(..) => walk(r.rdata_start + 2, &mut v),
                Rdata::Soa(..) => {
                    let before = v.len();
                    walk(r.rdata_start, &mut v);
                    // second name starts after the first
                    if let Some(&last) = v[before..].last() {
                        let next = if b[last] & 0xc0 == 0xc0 { last + 2 } else { last + 1 };
                        walk(next, &mut v);
                    }
                }
                _ => {}
            }
        }
    }
    v
}

/// Hand-picked byte strings from the repository's own tests, as seeds.
pub fn golden_packets() -> Vec<Vec<u8>> {
    vec![
        // valid response with compression (tests/test_dnssector.rs style)
        vec![
            0x00, 0x01, 0x81, 0x80, 0x00, 0x01, 0x00, 0x01, 0x00, 0x00, 0x00, 0x00, 0x07, b'e', b'x', b'a', b'm', b'p', b'l', b'e', 0x03,
            b'c', b'o', b'm', 0x00, 0x00, 0x01, 0x00, 0x01, 0xc0, 0x0c, 0x00, 0x01, 0x00, 0x01, 0x00, 0x00, 0x0e, 0x10, 0x00, 0x04, 1, 2,
            3, 4,
        ],
        // query with OPT
        vec![
            0x12, 0x34, 0x01, 0x00, 0x00, 0x01, 0x00, 0x00, 0x00, 0x00, 0x00, 0x01, 0x01, b'a', 0x00, 0x00, 0x01, 0x00, 0x01, 0x00, 0x00,
            0x29, 0x10, 0x00, 0x00, 0x00, 0x80, 0x00, 0x00, 0x00,
        ],
    ]
}

//! "Second time round": library calls made on the same thread just before the call under test.
//!
//! The properties about parsing, (de)compression, renaming and synthesis quantify over inputs, not over
//! what the thread did before.  A change that keeps scratch state per thread (a reused buffer, a
//! dictionary, a mode flag) and forgets to reset it on an error path is correct the first time and wrong
//! afterwards.  A case flagged `hist` therefore (1) runs on a freshly spawned thread, so that what it
//! leaves behind cannot reach another case and its replay file reproduces it alone, and (2) first makes
//! 1..3 calls that fail part-way - on damaged copies of the very packet (or names) of the case - before
//! the oracle of the check runs on that thread.

use crate::gens;
use crate::model::*;
use crate::runner::*;
use crate::src::Src;
use dnssector::rr_iterator::TypedIterable;
use dnssector::synth::gen as dgen;
use dnssector::{Compress, DNSSector, Renamer};

thread_local! {
    /// choice bytes for the failing calls of an armed history case (None = not armed / already fired)
    static ARMED: std::cell::RefCell<Option<Vec<u8>>> = const { std::cell::RefCell::new(None) };
    static FIRED: std::cell::RefCell<Vec<&'static str>> = const { std::cell::RefCell::new(Vec::new()) };
}

/// Entry point for a case function: with probability `chance`/256 (decided by the choice string) the
/// body runs as a history case - on a fresh thread, and the first time it hands a packet to the library
/// (`fire_if_armed`, called by `lib_parse` and friends) 1..3 failing calls on damaged copies of that
/// packet are made first.
pub fn case<F>(src: &mut Src, st: &mut Stats, chance: u32, body: F) -> PResult
where
    F: FnOnce(&mut Src, &mut Stats) -> PResult + Send,
{
    if !src.chance(chance) {
        return body(src, st);
    }
    let seed = src.bytes(8);
    run(true, move || {
        ARMED.with(|a| *a.borrow_mut() = Some(seed));
        FIRED.with(|f| f.borrow_mut().clear());
        let r = body(src, st);
        ARMED.with(|a| *a.borrow_mut() = None);
        let fired: Vec<&'static str> = FIRED.with(|f| f.borrow().clone());
        if !fired.is_empty() {
            st.class("history:failing-calls-first");
            for w in &fired {
                st.class(&format!("after:{}", w));
            }
        }
        r.map_err(|f| if fired.is_empty() { f } else { Failure::new(f.sig, format!("{}\n[history case: on the same (fresh) thread, before the call under test: {}]", f.detail, fired.join("; "))) })
    })
}

/// Called with the packet of the case just before it is first handed to the library.
pub fn fire_if_armed(related: &[u8]) {
    let seed = ARMED.with(|a| a.borrow_mut().take());
    if let Some(seed) = seed {
        let mut s = Src::new(&seed);
        let mut st = Stats::default();
        let done = failing_calls(&mut s, related, &mut st);
        FIRED.with(|f| f.borrow_mut().extend(done));
    }
}

/// Runs `f` on a fresh thread when `fresh`, else in place. A panic that escapes `f` is a failure.
pub fn run<F>(fresh: bool, f: F) -> PResult
where
    F: FnOnce() -> PResult + Send,
{
    if !fresh {
        return f();
    }
    std::thread::scope(|s| {
        let h = std::thread::Builder::new().stack_size(8 << 20).spawn_scoped(s, move || catch(f)).expect("spawn");
        match h.join() {
            Ok(Ok(r)) => r,
            Ok(Err(pm)) => Err(Failure::new(format!("harness-panic: {}", panic_sig(&pm)), pm)),
            Err(_) => Err(Failure::new("harness-panic: thread died", "the fresh thread of a history case died")),
        }
    })
}

fn damage(src: &mut Src, bytes: &[u8]) -> Vec<u8> {
    let mut v = bytes.to_vec();
    if v.len() <= 14 {
        v.push(0xc0);
        return v;
    }
    match src.below(4) {
        0 => {
            // cut inside the records: the header and the first bytes are processed before the failure
            let at = src.range(13, v.len() - 1);
            v.truncate(at);
        }
        1 => {
            // one more record announced than present
            v[7] = v[7].wrapping_add(1);
            v[2] |= 0x80;
        }
        2 => {
            let at = src.range(12, v.len() - 1);
            v[at] = 0xc0;
        }
        _ => {
            // trailing garbage
            v.extend_from_slice(&[0xff, 0xff, 0xff]);
        }
    }
    v
}

/// The packet parsed, or - when the library refuses it - a small accepted response parsed instead.
fn parsed_or_golden(b: Vec<u8>) -> Option<dnssector::ParsedPacket> {
    match DNSSector::new(b).and_then(|x| x.parse()) {
        Ok(pp) => Some(pp),
        Err(_) => DNSSector::new(gens::golden_packets()[0].clone()).and_then(|x| x.parse()).ok(),
    }
}

/// Last `k` labels of the first name found in the packet's question (raw form), if it parses.
fn question_suffix(bytes: &[u8], src: &mut Src) -> Option<Vec<u8>> {
    let mut pp = parsed_or_golden(bytes.to_vec())?;
    let raw = pp.question_raw0()?.0.to_vec();
    let mut starts = vec![];
    let mut i = 0;
    while i < raw.len() && raw[i] != 0 {
        starts.push(i);
        i += raw[i] as usize + 1;
    }
    if starts.is_empty() {
        return None;
    }
    let s = *src.pick(&starts);
    Some(raw[s..].to_vec())
}

/// 1..3 calls that are expected to fail part-way (each one under `catch`: what they return does not
/// matter here, only what they may leave behind). Returns what was called, for the failure report.
pub fn failing_calls(src: &mut Src, related: &[u8], st: &mut Stats) -> Vec<&'static str> {
    let n = src.range(1, 3);
    let mut done = vec![];
    for _ in 0..n {
        let kind = src.below(9);
        let what: &'static str = match kind {
            0 => {
                let d = damage(src, related);
                let _ = catch(|| DNSSector::new(d).and_then(|x| x.parse()).is_ok());
                "parse(damaged copy)"
            }
            1 => {
                let d = damage(src, related);
                let _ = catch(|| Compress::uncompress(&d).is_ok());
                "uncompress(damaged copy)"
            }
            2 => {
                let d = damage(src, related);
                let _ = catch(|| Compress::compress(&d).is_ok());
                "compress(damaged copy)"
            }
            3 | 8 => {
                // suffix rename whose target makes a later name overflow 255 bytes
                let wl = *src.pick(&[255usize, 250, 200]);
                let target = gens::name_of_wire_len(src, wl).to_wire();
                let source = question_suffix(related, src).unwrap_or_else(|| Name::from_dotted("com").to_wire());
                let b = related.to_vec();
                let _ = catch(move || {
                    if let Some(mut pp) = parsed_or_golden(b) {
                        if kind == 3 {
                            let _ = Renamer::rename_with_raw_names(&mut pp, &target, &source, true);
                        } else {
                            let _ = pp.rename_with_raw_names(&target, &source, true);
                        }
                    }
                });
                if kind == 3 {
                    "Renamer::rename_with_raw_names(overflowing target)"
                } else {
                    "ParsedPacket::rename_with_raw_names(overflowing target)"
                }
            }
            4 => {
                // structurally valid names refused by the character policy, names with trailing bytes, pointers
                let bads: Vec<Vec<u8>> = vec![vec![3u8, b'a', b'.', b'b', 0], vec![3, b'a', b'\\', b'b', 3, b'c', b'o', b'm', 0], vec![3, b'c', b'o', b'm', 0, 1], vec![1, b'a', 0xc0, 0x0c], vec![2, b'a', 0x07, 0]];
                let bad: Vec<u8> = src.pick(&bads).clone();
                let good = question_suffix(related, src).unwrap_or_else(|| Name::from_dotted("com").to_wire());
                let as_target = src.chance(128);
                let b = related.to_vec();
                let _ = catch(move || {
                    if let Some(mut pp) = parsed_or_golden(b) {
                        let _ = if as_target { pp.rename_with_raw_names(&bad, &good, true) } else { pp.rename_with_raw_names(&good, &bad, true) };
                    }
                });
                "rename_with_raw_names(name refused by the policy)"
            }
            5 => {
                let bads: Vec<Vec<u8>> = vec![vec![3u8, b'a', b'.', b'b', 0], vec![1, b'a', 0xc0, 0x0c], vec![2, b'a', 0x1f, 3, b'c', b'o', b'm', 0], vec![64]];
                let bad: Vec<u8> = src.pick(&bads).clone();
                let b = related.to_vec();
                let _ = catch(move || {
                    if let Some(mut pp) = parsed_or_golden(b) {
                        if let Some(mut q) = pp.into_iter_question() {
                            let _ = q.set_raw_name(&bad);
                        }
                        if let Some(mut a) = pp.into_iter_answer() {
                            let _ = a.set_raw_name(&bad);
                        }
                    }
                });
                "set_raw_name(name refused by the policy)"
            }
            6 => {
                let long = format!("www.{}.com", "x".repeat(64));
                let t: &[u8] = match src.below(3) {
                    0 => b"www..example.com",
                    1 => long.as_bytes(),
                    _ => b"www.caf\xc3\xa9.example.com",
                };
                let _ = catch(|| dgen::raw_name_from_str(t, None).is_ok());
                "raw_name_from_str(name refused after its first label)"
            }
            _ => {
                let l = "x".repeat(62);
                let long = format!("{}.{}.{}.{}.yy", l, l, l, l);
                let t = match src.below(4) {
                    0 => format!("a.example. 1 IN MX 10 {}.", long),
                    1 => format!("a.example. 1 IN SOA ns.{}. {}. 1 2 3 4 5", long, long),
                    2 => format!("a.example. 1 IN NS {}.", long),
                    _ => "a.example. 1 IN TXT \"unterminated".to_string(),
                };
                let _ = catch(|| dgen::RR::from_string(&t).is_ok());
                "RR::from_string(text refused part-way)"
            }
        };
        st.class(&format!("after:{}", what));
        done.push(what);
    }
    done
}

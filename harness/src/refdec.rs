//! Reference recogniser / decoder: an independent, executable statement of
//! the parser's acceptance policy (property C02) that also produces the
//! decoded message and an offset map used as oracle by most other checks.
//!
//! It is written from the property statements, as a decoder into the abstract
//! model with one explicit reject reason per policy clause.  The name walker
//! first *collects* the segments of a name (following pointers under the
//! "strictly backward" rule only) and then validates the collected list
//! against the segment-containment rule; this is structurally different from
//! the library's single loop with `barrier/lowest` cursors.
//!
//! Three-valued verdict: the property text does not say whether a name whose
//! later segment runs into (or whose pointer straddles) the start of the
//! previous segment is well-formed; the library rejects the former and
//! accepts the latter.  Both are reported as `quirk` (= unspecified): the
//! C02 differential does not compare them and the other checks do not use
//! such packets.

use crate::model::*;

#[derive(Clone, Debug, PartialEq, Eq)]
pub struct Reject {
    pub clause: &'static str,
    pub at: usize,
}

fn rej<T>(clause: &'static str, at: usize) -> Result<T, Reject> {
    Err(Reject { clause, at })
}

#[derive(Clone, Copy, Debug, Default)]
pub struct Opts {
    /// Accept qdcount == 0 (state reached after deleting the question).
    pub allow_no_question: bool,
}

#[derive(Clone, Debug)]
pub struct NameInfo {
    pub name: Name,
    pub start: usize,
    /// Offset right after the name in the record (after the first pointer if any).
    pub end: usize,
    /// (position of pointer, target)
    pub ptrs: Vec<(usize, usize)>,
    /// Segment overrun or straddling pointer: verdict unspecified.
    pub quirk: bool,
}

#[derive(Clone, Debug)]
pub struct QInfo {
    pub start: usize,
    pub name_end: usize,
    pub end: usize,
    pub name: NameInfo,
}

#[derive(Clone, Debug)]
pub struct RecInfo {
    pub start: usize,
    pub name_end: usize,
    pub rdata_start: usize,
    pub end: usize,
    pub rdlen: usize,
    pub owner: NameInfo,
    pub rdata_names: Vec<NameInfo>,
}

#[derive(Clone, Debug)]
pub struct EdnsInfo {
    /// index of the OPT record in the additional section
    pub ar_index: usize,
    pub rec_start: usize,
    pub options_start: usize,
    /// (offset, code, data length)
    pub options: Vec<(usize, u16, usize)>,
    pub udp: u16,
    pub ext_rcode: u8,
    pub version: u8,
    pub flags: u16,
}

#[derive(Clone, Debug)]
pub struct Decoded {
    pub msg: Message,
    pub q: Option<QInfo>,
    /// record infos of answer, authority, additional
    pub recs: [Vec<RecInfo>; 3],
    pub edns: Option<EdnsInfo>,
    pub quirk: bool,
    pub len: usize,
}

impl Decoded {
    /// Offsets of every record boundary: start of question, of every record, end of packet.
    pub fn boundaries(&self) -> Vec<usize> {
        let mut v = vec![];
        if let Some(q) = &self.q {
            v.push(q.start);
        }
        for s in &self.recs {
            for r in s {
                v.push(r.start);
            }
        }
        v.push(self.len);
        v
    }
    pub fn all_name_infos(&self) -> Vec<&NameInfo> {
        let mut v = vec![];
        if let Some(q) = &self.q {
            v.push(&q.name);
        }
        for s in &self.recs {
            for r in s {
                v.push(&r.owner);
                for n in &r.rdata_names {
                    v.push(n);
                }
            }
        }
        v
    }
    /// Does any name the library understands use a pointer?
    pub fn has_pointer(&self) -> bool {
        self.all_name_infos().iter().any(|n| !n.ptrs.is_empty())
    }
    pub fn max_ptr_depth(&self) -> usize {
        self.all_name_infos().iter().map(|n| n.ptrs.len()).max().unwrap_or(0)
    }
    pub fn section_start(&self, s: usize) -> Option<usize> {
        self.recs[s - 1].first().map(|r| r.start)
    }
}

fn be16(p: &[u8], o: usize) -> u16 {
    ((p[o] as u16) << 8) | p[o + 1] as u16
}
fn be32(p: &[u8], o: usize) -> u32 {
    ((be16(p, o) as u32) << 16) | be16(p, o + 2) as u32
}

/// Walk a name.  `compressed`: pointers allowed and character policy applied
/// (owner names and names inside NS/CNAME/PTR/MX/SOA data); otherwise the
/// name must be pointer-free and may contain any bytes (DNAME targets).
pub fn walk_name(p: &[u8], start: usize, compressed: bool) -> Result<NameInfo, Reject> {
    let len = p.len();
    if start >= len {
        return rej("name-start-outside-packet", start);
    }
    // phase 1: collect elements, following strictly-backward pointers only
    struct Elem {
        seg: usize,
        at: usize,
        last: usize, // last byte occupied by the element
    }
    let mut elems: Vec<Elem> = vec![];
    let mut seg_starts = vec![start];
    let mut pos = start;
    let mut labels: Vec<Vec<u8>> = vec![];
    let mut ptrs = vec![];
    let mut wire_end = None;
    let mut total = 0usize;
    loop {
        if pos >= len {
            return rej("name-truncated", pos);
        }
        let b = p[pos];
        let seg = seg_starts.len() - 1;
        if b & 0xc0 == 0xc0 {
            if !compressed {
                return rej("pointer-in-pointer-free-name", pos);
            }
            if ptrs.len() >= 16 {
                return rej("too-many-pointers", pos);
            }
            if pos + 1 >= len {
                return rej("pointer-truncated", pos);
            }
            let target = (((b & 0x3f) as usize) << 8) | p[pos + 1] as usize;
            if target >= seg_starts[seg] {
                return rej("pointer-not-strictly-backward", pos);
            }
            if p[target] == 0 {
                return rej("pointer-to-root-label", pos);
            }
            elems.push(Elem { seg, at: pos, last: pos + 1 });
            ptrs.push((pos, target));
            if wire_end.is_none() {
                wire_end = Some(pos + 2);
            }
            seg_starts.push(target);
            pos = target;
            continue;
        }
        if b > 63 {
            return rej("label-longer-than-63", pos);
        }
        let l = b as usize;
        if pos + l >= len {
            return rej("label-out-of-bounds", pos);
        }
        total += l + 1;
        if total > 255 {
            return rej("name-longer-than-255", pos);
        }
        elems.push(Elem { seg, at: pos, last: pos + l });
        if l == 0 {
            pos += 1;
            break;
        }
        let lab = &p[pos + 1..pos + 1 + l];
        if compressed && !lab.iter().all(|&c| label_char_ok(c)) {
            return rej("forbidden-character-in-label", pos);
        }
        labels.push(lab.to_vec());
        pos += l + 1;
    }
    // phase 2: segment containment.  Segment k must lie below the start of segment k-1.
    let mut quirk = false;
    for e in &elems {
        if e.seg > 0 {
            let barrier = seg_starts[e.seg - 1];
            if e.at >= barrier || e.last >= barrier {
                quirk = true;
            }
        }
    }
    Ok(NameInfo { name: Name(labels), start, end: wire_end.unwrap_or(pos), ptrs, quirk })
}

/// Is this quirk one the library accepts (straddling pointer only) or rejects
/// (an element *starting* at or beyond the barrier)?  Used only for statistics.
pub fn decode(p: &[u8], opts: Opts) -> Result<Decoded, Reject> {
    let len = p.len();
    if len < 12 {
        return rej("header-shorter-than-12", 0);
    }
    let id = be16(p, 0);
    let flags = be16(p, 2);
    let qd = be16(p, 4);
    let counts = [be16(p, 6) as usize, be16(p, 8) as usize, be16(p, 10) as usize];
    if qd == 0 && !opts.allow_no_question {
        return rej("no-question", 4);
    }
    if qd > 1 {
        return rej("more-than-one-question", 4);
    }
    let qr = flags & 0x8000 != 0;
    let mut pos = 12;
    let mut quirk = false;
    let mut msg = Message { id, flags, ..Default::default() };
    let mut q = None;
    if qd == 1 {
        let n = walk_name(p, pos, true)?;
        quirk |= n.quirk;
        let name_end = n.end;
        if name_end + 4 > len {
            return rej("question-fixed-part-truncated", name_end);
        }
        let qtype = be16(p, name_end);
        let qclass = be16(p, name_end + 2);
        if qclass != 1 {
            return rej("question-class-not-IN", name_end + 2);
        }
        msg.qd.push(Question { name: n.name.clone(), qtype, qclass });
        q = Some(QInfo { start: pos, name_end, end: name_end + 4, name: n });
        pos = name_end + 4;
    }
    let mut recs: [Vec<RecInfo>; 3] = [vec![], vec![], vec![]];
    let mut edns: Option<EdnsInfo> = None;
    for s in 0..3 {
        if s < 2 && !qr && counts[s] > 0 {
            return rej("answer-or-authority-records-in-a-query", 6 + 2 * s);
        }
        for i in 0..counts[s] {
            let start = pos;
            let owner = walk_name(p, pos, true)?;
            quirk |= owner.quirk;
            let name_end = owner.end;
            if name_end + 10 > len {
                return rej("record-fixed-part-truncated", name_end);
            }
            let rtype = be16(p, name_end);
            let class = be16(p, name_end + 2);
            let ttl = be32(p, name_end + 4);
            let rdlen = be16(p, name_end + 8) as usize;
            let rstart = name_end + 10;
            let mut rdata_names = vec![];
            let rdata;
            match rtype {
                T_OPT => {
                    if s != 2 {
                        return rej("opt-outside-additional", start);
                    }
                    if name_end - start != 1 {
                        return rej("opt-owner-not-root", start);
                    }
                    if edns.is_some() {
                        return rej("second-opt", start);
                    }
                    if rstart + rdlen > len {
                        return rej("opt-data-truncated", rstart);
                    }
                    let rend = rstart + rdlen;
                    let mut o = rstart;
                    let mut options = vec![];
                    let mut mopts = vec![];
                    while o < rend {
                        if o + 4 > rend {
                            return rej("option-header-overruns-opt-data", o);
                        }
                        let code = be16(p, o);
                        let l = be16(p, o + 2) as usize;
                        if o + 4 + l > rend {
                            return rej("option-data-overruns-opt-data", o);
                        }
                        options.push((o, code, l));
                        mopts.push((code, p[o + 4..o + 4 + l].to_vec()));
                        o += 4 + l;
                    }
                    edns = Some(EdnsInfo {
                        ar_index: i,
                        rec_start: start,
                        options_start: rstart,
                        options,
                        udp: class,
                        ext_rcode: (ttl >> 24) as u8,
                        version: (ttl >> 16) as u8,
                        flags: ttl as u16,
                    });
                    rdata = Rdata::Opt(mopts);
                }
                T_NS | T_CNAME | T_PTR => {
                    if rdlen == 0 {
                        return rej("name-rdata-empty", rstart);
                    }
                    let n = walk_name(p, rstart, true)?;
                    quirk |= n.quirk;
                    if n.end - rstart != rdlen {
                        return rej("name-rdata-not-exact", rstart);
                    }
                    rdata = Rdata::Name1(n.name.clone());
                    rdata_names.push(n);
                }
                T_MX => {
                    if rdlen <= 2 {
                        return rej("mx-rdata-too-short", rstart);
                    }
                    let n = walk_name(p, rstart + 2, true)?;
                    quirk |= n.quirk;
                    if n.end - rstart != rdlen {
                        return rej("mx-rdata-not-exact", rstart);
                    }
                    rdata = Rdata::Mx(be16(p, rstart), n.name.clone());
                    rdata_names.push(n);
                }
                T_SOA => {
                    if rdlen <= 21 {
                        return rej("soa-rdata-too-short", rstart);
                    }
                    let n1 = walk_name(p, rstart, true)?;
                    quirk |= n1.quirk;
                    let n2 = walk_name(p, n1.end, true)?;
                    quirk |= n2.quirk;
                    if n2.end - rstart + 20 != rdlen {
                        return rej("soa-rdata-not-exact", rstart);
                    }
                    if rstart + rdlen > len {
                        return rej("soa-fixed-part-truncated", n2.end);
                    }
                    rdata = Rdata::Soa(n1.name.clone(), n2.name.clone(), p[n2.end..n2.end + 20].to_vec());
                    rdata_names.push(n1);
                    rdata_names.push(n2);
                }
                T_DNAME => {
                    if rdlen == 0 {
                        return rej("dname-rdata-empty", rstart);
                    }
                    let n = walk_name(p, rstart, false)?;
                    if n.end - rstart != rdlen {
                        return rej("dname-rdata-not-exact", rstart);
                    }
                    rdata = Rdata::Dname(n.name.clone());
                }
                T_A => {
                    if rdlen != 4 {
                        return rej("a-rdata-not-4", rstart);
                    }
                    if rstart + 4 > len {
                        return rej("rdata-truncated", rstart);
                    }
                    let mut a = [0u8; 4];
                    a.copy_from_slice(&p[rstart..rstart + 4]);
                    rdata = Rdata::A(a);
                }
                T_AAAA => {
                    if rdlen != 16 {
                        return rej("aaaa-rdata-not-16", rstart);
                    }
                    if rstart + 16 > len {
                        return rej("rdata-truncated", rstart);
                    }
                    let mut a = [0u8; 16];
                    a.copy_from_slice(&p[rstart..rstart + 16]);
                    rdata = Rdata::Aaaa(a);
                }
                _ => {
                    if rstart + rdlen > len {
                        return rej("rdata-truncated", rstart);
                    }
                    rdata = Rdata::Opaque(p[rstart..rstart + rdlen].to_vec());
                }
            }
            let end = rstart + rdlen;
            debug_assert!(end <= len);
            recs[s].push(RecInfo { start, name_end, rdata_start: rstart, end, rdlen, owner: owner.clone(), rdata_names });
            msg.section_mut(s + 1).push(Record { owner: owner.name, rtype, class, ttl, rdata });
            pos = end;
        }
    }
    if pos != len {
        return rej("trailing-bytes", pos);
    }
    Ok(Decoded { msg, q, recs, edns, quirk, len })
}

#[derive(Clone, Copy, Debug, PartialEq, Eq)]
pub enum Verdict {
    Accept,
    Reject(&'static str),
    Unspecified,
}

pub fn verdict(p: &[u8]) -> Verdict {
    match decode(p, Opts::default()) {
        Ok(d) if d.quirk => Verdict::Unspecified,
        Ok(_) => Verdict::Accept,
        Err(r) => Verdict::Reject(r.clause),
    }
}

/// Strictly accepted (no quirk) decode, the domain of most checks.
pub fn decode_strict(p: &[u8]) -> Option<Decoded> {
    match decode(p, Opts::default()) {
        Ok(d) if !d.quirk => Some(d),
        _ => None,
    }
}

/// Reference check of a stand-alone, pointer-free wire name occupying `w` exactly.
pub fn plain_name_ok(w: &[u8], charset: bool) -> bool {
    match walk_name(w, 0, false) {
        Ok(n) => n.end == w.len() && (!charset || n.name.clean()),
        Err(_) => false,
    }
}

/// Pointer-free scan: walk all name positions the library understands without
/// following anything; true iff no pointer byte sits in a label-length position.
pub fn pointer_free(d: &Decoded) -> bool {
    !d.has_pointer()
}

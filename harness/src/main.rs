use dnsverif::props;
use dnsverif::runner::{self, Ctx, Tier};

fn usage() -> ! {
    eprintln!("usage: dnsverif <C01..C18> [--tier quick|thorough]\n       dnsverif replay <file>");
    std::process::exit(2)
}

fn main() {
    let args: Vec<String> = std::env::args().collect();
    if args.len() < 2 {
        usage();
    }
    // anyhow captures a backtrace (under a global lock) for every error value when backtraces are
    // enabled in the environment; errors are ordinary outcomes here, so switch that off.
    std::env::set_var("RUST_LIB_BACKTRACE", "0");
    std::env::set_var("RUST_BACKTRACE", "0");
    runner::quiet_panics();
    let verif_dir = std::env::var("VERIF_DIR").unwrap_or_else(|_| "/verif".to_string());
    let known = runner::load_known(&verif_dir);
    if args[1] == "c15-worker" && args.len() >= 6 {
        let seed: u64 = args[2].parse().unwrap_or(1);
        let stream: u64 = args[3].parse().unwrap_or(0);
        let cases: u64 = args[4].parse().unwrap_or(1);
        std::process::exit(props::cabi_props::worker_main(&verif_dir, seed, stream, cases, &args[5]));
    }
    if args[1] == "c18-instr" && args.len() >= 4 {
        // dnsverif c18-instr <family> <size>: build the family packet, parse it once (run under cachegrind by C18)
        let fam: usize = args[2].parse().unwrap_or(0);
        let n: usize = args[3].parse().unwrap_or(0);
        let (b, name) = props::cost_props::family(fam, n);
        let len = b.len();
        let ok = dnssector::DNSSector::new(b).and_then(|d| d.parse()).is_ok();
        println!("family={} len={} accepted={}", name, len, ok);
        std::process::exit(0);
    }
    if args[1] == "c15-one" && args.len() >= 3 {
        std::process::exit(props::cabi_props::one_main(&verif_dir, &args[2]));
    }
    if args[1] == "fuzz-replay" && args.len() >= 4 {
        // dnsverif fuzz-replay <target> <artifact> : run the target's oracle on a libFuzzer artifact
        let data = std::fs::read(&args[3]).unwrap_or_default();
        match runner::catch(|| dnsverif::fuzzing::run_target(&args[2], &data)) {
            Ok(Some(Ok(()))) => {
                println!("fuzz-replay {}: property held", args[3]);
                std::process::exit(0);
            }
            Ok(Some(Err(f))) => {
                println!("--- {}\n{}", f.sig, f.detail);
                std::process::exit(1);
            }
            Ok(None) => {
                eprintln!("unknown fuzz target {}", args[2]);
                std::process::exit(2);
            }
            Err(pm) => {
                println!("--- harness-panic {}", pm);
                std::process::exit(1);
            }
        }
    }
    if args[1] == "dump-corpus" && args.len() >= 3 {
        // dnsverif dump-corpus <dir> : seed corpora for the fuzz targets from the generators
        use proptest::prelude::RngCore;
        let dir = &args[2];
        let mut seed = [0u8; 32];
        seed[0] = 42;
        let mut rng = proptest::test_runner::TestRng::from_seed(proptest::test_runner::RngAlgorithm::ChaCha, &seed);
        for t in ["parse", "compress", "rename", "ops", "synth"] {
            let _ = std::fs::create_dir_all(format!("{}/{}", dir, t));
        }
        for (i, g) in dnsverif::gens::golden_packets().iter().enumerate() {
            let _ = std::fs::write(format!("{}/parse/golden-{}", dir, i), g);
        }
        for i in 0..200 {
            let n = 64 + (rng.next_u32() % 900) as usize;
            let mut choice = vec![0u8; n];
            rng.fill_bytes(&mut choice);
            let mut src = dnsverif::src::Src::new(&choice);
            let (bytes, _) = dnsverif::props::parse_props::gen_input(&mut src);
            if bytes.len() <= 4096 {
                let _ = std::fs::write(format!("{}/parse/gen-{}", dir, i), &bytes);
            }
            for t in ["compress", "rename", "ops", "synth"] {
                if i < 40 {
                    let _ = std::fs::write(format!("{}/{}/choices-{}", dir, t, i), &choice);
                }
            }
        }
        std::process::exit(0);
    }
    if args[1] == "replay" {
        if args.len() < 3 {
            usage();
        }
        let body = std::fs::read_to_string(&args[2]).unwrap_or_else(|e| {
            eprintln!("cannot read {}: {}", args[2], e);
            std::process::exit(2)
        });
        let v: serde_json::Value = serde_json::from_str(&body).unwrap_or_else(|e| {
            eprintln!("bad replay file: {}", e);
            std::process::exit(2)
        });
        let id = v["property"].as_str().unwrap_or("").to_string();
        let data = dnsverif::model::unhex(v["data"].as_str().unwrap_or("")).unwrap_or_default();
        if let Some(target) = v["kind"].as_str().and_then(|k| k.strip_prefix("fuzz:")) {
            match runner::catch(|| dnsverif::fuzzing::run_target(target, &data)) {
                Ok(Some(Ok(()))) | Ok(None) => {
                    println!("replay {}: property held", args[2]);
                    std::process::exit(0);
                }
                Ok(Some(Err(f))) => {
                    println!("--- {} failure: {}\n{}", id, f.sig, f.detail);
                    println!("VIOLATION property={} replay={}", id, args[2]);
                    std::process::exit(1);
                }
                Err(pm) => {
                    println!("--- {} harness panic: {}", id, pm);
                    println!("VIOLATION property={} replay={}", id, args[2]);
                    std::process::exit(1);
                }
            }
        }
        for (pid, _, replay) in props::registry() {
            if pid == id {
                match runner::catch(|| replay(&data)) {
                    Ok(Ok(())) => {
                        println!("replay {}: property held", args[2]);
                        std::process::exit(0);
                    }
                    Ok(Err(f)) => {
                        println!("--- {} failure: {}\n{}", id, f.sig, f.detail);
                        println!("VIOLATION property={} replay={}", id, args[2]);
                        std::process::exit(1);
                    }
                    Err(pm) => {
                        println!("--- {} harness panic: {}", id, pm);
                        println!("VIOLATION property={} replay={}", id, args[2]);
                        std::process::exit(1);
                    }
                }
            }
        }
        eprintln!("unknown property {:?} in replay file", id);
        std::process::exit(2);
    }
    let id = args[1].to_uppercase();
    let mut tier = match std::env::var("VERIF_TIER").ok().as_deref() {
        Some("thorough") => Tier::Thorough,
        _ => Tier::Quick,
    };
    let mut i = 2;
    while i < args.len() {
        match args[i].as_str() {
            "--tier" => {
                i += 1;
                tier = match args.get(i).map(|s| s.as_str()) {
                    Some("thorough") => Tier::Thorough,
                    Some("quick") => Tier::Quick,
                    _ => usage(),
                };
            }
            _ => usage(),
        }
        i += 1;
    }
    let seed = std::env::var("VERIF_SEED").ok().and_then(|s| s.trim().parse::<i64>().ok()).unwrap_or(1) as u64;
    let threads = std::env::var("VERIF_THREADS")
        .ok()
        .and_then(|s| s.parse().ok())
        .unwrap_or_else(|| std::thread::available_parallelism().map(|n| n.get()).unwrap_or(4).min(16));
    let scale = std::env::var("VERIF_SCALE").ok().and_then(|s| s.parse().ok()).unwrap_or(1.0);
    let ctx = Ctx { tier, seed, threads, scale, verif_dir };
    for (pid, check, _) in props::registry() {
        if pid == id {
            *runner::CURRENT_PROPERTY.lock().unwrap() = pid.to_string();
            runner::clear_provisional(&ctx, pid);
            let rep = match runner::catch(|| check(&ctx, &known)) {
                Ok(r) => r,
                Err(pm) => {
                    println!("INCONCLUSIVE property={} the harness panicked outside a generated case: {}", pid, pm);
                    std::process::exit(2);
                }
            };
            let status = runner::finish(rep, &ctx, &known);
            runner::clear_provisional(&ctx, pid);
            std::process::exit(status);
        }
    }
    eprintln!("unknown property {}", id);
    std::process::exit(2);
}

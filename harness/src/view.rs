//! Observation of the library's view of a packet (iterators and getters) and
//! the expected view computed from the reference decoding.

use crate::model::*;
use crate::refdec::Decoded;
use dnssector::constants::Section;
use dnssector::{DNSIterable, ParsedPacket, RawRRData, RdataIterable, TypedIterable};
use std::net::IpAddr;

#[derive(Clone, Debug, PartialEq, Eq)]
pub struct ObsRec {
    pub name: Vec<u8>,
    pub raw_name: Vec<u8>,
    pub raw_name_len: usize,
    pub rtype: u16,
    pub class: u16,
    pub ttl: Option<u32>,
    pub rdlen: Option<usize>,
    /// rr_rd(): Some(Ok(ip bytes)) / Some(Err(data))
    pub rd_ip: Option<Vec<u8>>,
    pub rd_data: Option<Vec<u8>>,
    /// rr_ip(): Some(ip bytes) or None when it reported an error
    pub ip: Option<Vec<u8>>,
    pub section: u8,
    pub offset: usize,
    pub offset_next: usize,
}

fn sec_num(s: Section) -> u8 {
    match s {
        Section::Question => 0,
        Section::Answer => 1,
        Section::NameServers => 2,
        Section::Additional => 3,
        Section::Edns => 4,
    }
}

fn ip_bytes(ip: &IpAddr) -> Vec<u8> {
    match ip {
        IpAddr::V4(a) => a.octets().to_vec(),
        IpAddr::V6(a) => a.octets().to_vec(),
    }
}

/// `copy_raw_name` is documented to *append* the name and to return the length of the name: it is
/// called on a vector that already holds 0..3 marker bytes (depending on the record's offset). A damaged
/// marker is reported as an impossible length.
fn raw_name_appended<T: DNSIterable + TypedIterable>(it: &T) -> (Vec<u8>, usize) {
    let pre = it.offset().unwrap_or(0) % 4;
    let mut v = vec![0xee; pre];
    let l = it.copy_raw_name(&mut v);
    if v.len() < pre || v[..pre].iter().any(|&b| b != 0xee) {
        return (v, usize::MAX);
    }
    (v.split_off(pre), l)
}

fn obs_rr<T: DNSIterable + TypedIterable + RdataIterable>(it: &T) -> ObsRec {
    let (raw_name, raw_name_len) = raw_name_appended(it);
    let (rd_ip, rd_data) = match it.rr_rd() {
        Ok(RawRRData::IpAddr(ip)) => (Some(ip_bytes(&ip)), None),
        Ok(RawRRData::Data(d)) => (None, Some(d.to_vec())),
        Err(_) => (None, None),
    };
    ObsRec {
        name: it.name(),
        raw_name,
        raw_name_len,
        rtype: it.rr_type(),
        class: it.rr_class(),
        ttl: Some(it.rr_ttl()),
        rdlen: Some(it.rr_rdlen()),
        rd_ip,
        rd_data,
        ip: it.rr_ip().ok().map(|ip| ip_bytes(&ip)),
        section: it.current_section().map(sec_num).unwrap_or(99),
        offset: it.offset().unwrap_or(usize::MAX),
        offset_next: it.offset_next(),
    }
}

pub const WALK_LIMIT: usize = 70_000;

pub fn walk_question(pp: &mut ParsedPacket) -> Vec<ObsRec> {
    let mut v = vec![];
    let mut it = pp.into_iter_question();
    while let Some(item) = it {
        let (raw_name, raw_name_len) = raw_name_appended(&item);
        v.push(ObsRec {
            name: item.name(),
            raw_name,
            raw_name_len,
            rtype: item.rr_type(),
            class: item.rr_class(),
            ttl: None,
            rdlen: None,
            rd_ip: None,
            rd_data: None,
            ip: None,
            section: item.current_section().map(sec_num).unwrap_or(99),
            offset: item.offset().unwrap_or(usize::MAX),
            offset_next: item.offset_next(),
        });
        if v.len() > WALK_LIMIT {
            break;
        }
        it = item.next();
    }
    v
}

/// sec: 1 answer, 2 authority, 3 additional
pub fn walk_section(pp: &mut ParsedPacket, sec: usize, including_opt: bool) -> Vec<ObsRec> {
    let mut v = vec![];
    let mut it = match (sec, including_opt) {
        (1, _) => pp.into_iter_answer(),
        (2, _) => pp.into_iter_nameservers(),
        (3, false) => pp.into_iter_additional(),
        (3, true) => pp.into_iter_additional_including_opt(),
        _ => panic!("bad section"),
    };
    while let Some(item) = it {
        v.push(obs_rr(&item));
        if v.len() > WALK_LIMIT {
            break;
        }
        it = if including_opt { item.next_including_opt() } else { item.next() };
    }
    v
}

/// (offset, offset_next, code, len, data)
pub fn walk_edns(pp: &mut ParsedPacket) -> Vec<(usize, usize, u16, usize, Vec<u8>)> {
    let mut v = vec![];
    let mut it = pp.into_iter_edns();
    while let Some(item) = it {
        let off = item.offset().unwrap_or(usize::MAX);
        let next = item.offset_next();
        let p = item.packet();
        let (code, len, data) = if off + 4 <= p.len() {
            let code = ((p[off] as u16) << 8) | p[off + 1] as u16;
            let len = ((p[off + 2] as usize) << 8) | p[off + 3] as usize;
            let data = p.get(off + 4..off + 4 + len).map(|d| d.to_vec()).unwrap_or_default();
            (code, len, data)
        } else {
            (0, usize::MAX, vec![])
        };
        v.push((off, next, code, len, data));
        if v.len() > WALK_LIMIT {
            break;
        }
        it = item.next();
    }
    v
}

pub fn expect_question(d: &Decoded) -> Vec<ObsRec> {
    match (&d.q, d.msg.qd.first()) {
        (Some(qi), Some(q)) => vec![ObsRec {
            name: q.name.to_text_lower(),
            raw_name: q.name.to_wire(),
            raw_name_len: q.name.wire_len(),
            rtype: q.qtype,
            class: q.qclass,
            ttl: None,
            rdlen: None,
            rd_ip: None,
            rd_data: None,
            ip: None,
            section: 0,
            offset: qi.start,
            offset_next: qi.end,
        }],
        _ => vec![],
    }
}

pub fn expect_section(d: &Decoded, bytes: &[u8], sec: usize, including_opt: bool) -> Vec<ObsRec> {
    let mut v = vec![];
    for (r, ri) in d.msg.section(sec).iter().zip(d.recs[sec - 1].iter()) {
        if r.is_opt() && !including_opt {
            continue;
        }
        let raw = bytes[ri.rdata_start..ri.end].to_vec();
        let ip = match &r.rdata {
            Rdata::A(a) => Some(a.to_vec()),
            Rdata::Aaaa(a) => Some(a.to_vec()),
            _ => None,
        };
        v.push(ObsRec {
            name: r.owner.to_text_lower(),
            raw_name: r.owner.to_wire(),
            raw_name_len: r.owner.wire_len(),
            rtype: r.rtype,
            class: r.class,
            ttl: Some(r.ttl),
            rdlen: Some(ri.rdlen),
            rd_ip: ip.clone(),
            rd_data: if ip.is_some() { None } else { Some(raw) },
            ip,
            section: sec as u8,
            offset: ri.start,
            offset_next: ri.end,
        });
    }
    v
}

pub fn expect_edns(d: &Decoded, bytes: &[u8]) -> Vec<(usize, usize, u16, usize, Vec<u8>)> {
    match &d.edns {
        None => vec![],
        Some(e) => e.options.iter().map(|&(o, c, l)| (o, o + 4 + l, c, l, bytes[o + 4..o + 4 + l].to_vec())).collect(),
    }
}

pub fn first_diff(a: &[ObsRec], b: &[ObsRec]) -> String {
    if a.len() != b.len() {
        return format!("yield count {} (library) vs {} (reference)", a.len(), b.len());
    }
    for (i, (x, y)) in a.iter().zip(b.iter()).enumerate() {
        if x != y {
            let mut fields = vec![];
            macro_rules! f {
                ($n:ident) => {
                    if x.$n != y.$n {
                        fields.push(format!("{}: {:?} vs {:?}", stringify!($n), x.$n, y.$n));
                    }
                };
            }
            f!(name);
            f!(raw_name);
            f!(raw_name_len);
            f!(rtype);
            f!(class);
            f!(ttl);
            f!(rdlen);
            f!(rd_ip);
            f!(rd_data);
            f!(ip);
            f!(section);
            f!(offset);
            f!(offset_next);
            return format!("record #{}: {}", i, fields.join("; "));
        }
    }
    "equal".into()
}

/// Names of the differing fields only (stable signature material).
pub fn diff_fields(a: &[ObsRec], b: &[ObsRec]) -> String {
    if a.len() != b.len() {
        return "yield-count".into();
    }
    for (x, y) in a.iter().zip(b.iter()) {
        if x != y {
            let mut fields = vec![];
            macro_rules! f {
                ($n:ident) => {
                    if x.$n != y.$n {
                        fields.push(stringify!($n));
                    }
                };
            }
            f!(name);
            f!(raw_name);
            f!(raw_name_len);
            f!(rtype);
            f!(class);
            f!(ttl);
            f!(rdlen);
            f!(rd_ip);
            f!(rd_data);
            f!(ip);
            f!(section);
            f!(offset);
            f!(offset_next);
            return fields.join(",");
        }
    }
    "equal".into()
}

/// The object's own summary of the packet, as observable through public
/// fields and getters.
#[derive(Clone, Debug, PartialEq, Eq)]
pub struct Summary {
    pub offset_question: Option<usize>,
    pub offset_answers: Option<usize>,
    pub offset_nameservers: Option<usize>,
    pub offset_additional: Option<usize>,
    pub offset_edns: Option<usize>,
    pub edns_count: u16,
    pub ext_rcode: Option<u8>,
    pub edns_version: Option<u8>,
    pub ext_flags: Option<u16>,
    pub tid: u16,
    pub flags: u32,
    pub rcode: u8,
    pub opcode: u8,
    pub is_response: bool,
    pub dnssec: bool,
    pub question: Option<(Vec<u8>, u16, u16)>,
    pub question_raw0: Option<(Vec<u8>, u16, u16)>,
    pub question_raw: Option<(Vec<u8>, u16, u16)>,
    pub qtype_qclass: Option<(u16, u16)>,
}

/// `order`: permutes the question getters (the cache is filled by some and read by others).
pub fn observe_summary(pp: &mut ParsedPacket, order: u8) -> Summary {
    let mut question = None;
    let mut question_raw0 = None;
    let mut question_raw = None;
    let mut qtype_qclass = None;
    let perms: [[u8; 4]; 6] = [[0, 1, 2, 3], [1, 0, 2, 3], [3, 2, 1, 0], [2, 0, 3, 1], [0, 3, 1, 2], [1, 2, 3, 0]];
    for &g in perms[(order % 6) as usize].iter() {
        match g {
            0 => question = pp.question(),
            1 => question_raw0 = pp.question_raw0().map(|(n, t, c)| (n.to_vec(), t, c)),
            2 => question_raw = pp.question_raw().map(|(n, t, c)| (n.to_vec(), t, c)),
            _ => qtype_qclass = pp.qtype_qclass(),
        }
    }
    Summary {
        offset_question: pp.offset_question,
        offset_answers: pp.offset_answers,
        offset_nameservers: pp.offset_nameservers,
        offset_additional: pp.offset_additional,
        offset_edns: pp.offset_edns,
        edns_count: pp.edns_count,
        ext_rcode: pp.ext_rcode,
        edns_version: pp.edns_version,
        ext_flags: pp.ext_flags,
        tid: pp.tid(),
        flags: pp.flags(),
        rcode: pp.rcode(),
        opcode: pp.opcode(),
        is_response: pp.is_response(),
        dnssec: pp.dnssec(),
        question,
        question_raw0,
        question_raw,
        qtype_qclass,
    }
}

pub fn expect_summary(d: &Decoded) -> Summary {
    let m = &d.msg;
    let ext_flags = d.edns.as_ref().map(|e| e.flags);
    let flags = ((ext_flags.unwrap_or(0) as u32) << 16) | (m.flags & !0x780f) as u32;
    let qr = m.flags & 0x8000 != 0;
    let q = m.qd.first();
    Summary {
        offset_question: d.q.as_ref().map(|q| q.start),
        offset_answers: d.section_start(1),
        offset_nameservers: d.section_start(2),
        offset_additional: d.section_start(3),
        offset_edns: d.edns.as_ref().map(|e| e.options_start),
        edns_count: d.edns.as_ref().map(|e| e.options.len() as u16).unwrap_or(0),
        ext_rcode: d.edns.as_ref().map(|e| e.ext_rcode),
        edns_version: d.edns.as_ref().map(|e| e.version),
        ext_flags,
        tid: m.id,
        flags,
        rcode: (m.flags & 0x000f) as u8,
        opcode: ((m.flags >> 11) & 0x0f) as u8,
        is_response: qr,
        dnssec: if qr { m.flags & 0x0020 != 0 } else { ext_flags.unwrap_or(0) & 0x8000 != 0 },
        question: q.map(|q| (q.name.to_text_lower(), q.qtype, q.qclass)),
        question_raw0: q.map(|q| (q.name.to_wire(), q.qtype, q.qclass)),
        question_raw: q.map(|q| {
            let mut w = q.name.to_wire();
            w.pop();
            (w, q.qtype, q.qclass)
        }),
        qtype_qclass: q.map(|q| (q.qtype, q.qclass)),
    }
}

pub fn summary_diff(a: &Summary, b: &Summary) -> Vec<String> {
    let mut fields = vec![];
    macro_rules! f {
        ($n:ident) => {
            if a.$n != b.$n {
                fields.push(format!("{}: {:?} (object) vs {:?} (bytes)", stringify!($n), a.$n, b.$n));
            }
        };
    }
    f!(offset_question);
    f!(offset_answers);
    f!(offset_nameservers);
    f!(offset_additional);
    f!(offset_edns);
    f!(edns_count);
    f!(ext_rcode);
    f!(edns_version);
    f!(ext_flags);
    f!(tid);
    f!(flags);
    f!(rcode);
    f!(opcode);
    f!(is_response);
    f!(dnssec);
    f!(question);
    f!(question_raw0);
    f!(question_raw);
    f!(qtype_qclass);
    fields
}

/// Field names only.
pub fn summary_diff_names(a: &Summary, b: &Summary) -> String {
    summary_diff(a, b).iter().map(|s| s.split(':').next().unwrap().to_string()).collect::<Vec<_>>().join(",")
}

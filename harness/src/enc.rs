//! Wire encoder for model messages with a generated compression layout.
//!
//! Everything emitted is valid by construction under the C02 policy: pointers
//! only to positions below the start of the name being written where the very
//! same suffix (byte-exact) starts, never to a root label, at most 16 per
//! chain.  Pointer targets may lie inside rdata names, inside opaque data
//! that happens to hold a name (SRV-like), inside the header when the header
//! bytes form a label sequence, and may themselves be pointers (chains).

use crate::model::*;
use crate::src::Src;

#[derive(Clone, Debug)]
struct SuffixPos {
    off: usize,
    labels: Vec<Vec<u8>>,
    depth: usize,
}

#[derive(Clone, Debug, Default)]
pub struct RecOffsets {
    pub start: usize,
    pub name_end: usize,
    pub rdata_start: usize,
    pub end: usize,
}

#[derive(Clone, Debug, Default)]
pub struct Encoded {
    pub bytes: Vec<u8>,
    pub q: Option<RecOffsets>,
    pub recs: [Vec<RecOffsets>; 3],
    pub pointers: usize,
    pub max_depth: usize,
    pub header_target_used: bool,
}

pub enum Layout<'a, 'b> {
    /// No pointers at all.
    Literal,
    /// Pointer decisions drawn from the choice source.
    Random(&'a mut Src<'b>),
    /// Always point, as early in the name as possible, at the candidate with the longest
    /// chain: repeated names build pointer->pointer ladders up to the limit of 16.
    Deepest,
}

pub struct Encoder<'a, 'b> {
    out: Vec<u8>,
    table: Vec<SuffixPos>,
    layout: Layout<'a, 'b>,
    pointers: usize,
    max_depth: usize,
    header_target_used: bool,
}

impl<'a, 'b> Encoder<'a, 'b> {
    fn write_name(&mut self, name: &Name, may_compress: bool, register: bool) {
        let name_start = self.out.len();
        let n = name.0.len();
        let mut chosen: Option<(usize, SuffixPos)> = None;
        if may_compress && n > 0 {
            if let Layout::Random(src) = &mut self.layout {
                // 0 => literal; bias: compress 4 times out of 5
                if src.chance(205) {
                    // try label positions in a drawn order: first candidate position drawn, then scan
                    let first = src.below(n);
                    let prefer_deep = src.chance(96);
                    for k in 0..n {
                        let i = (first + k) % n;
                        let suffix = &name.0[i..];
                        let mut cands: Vec<&SuffixPos> = self
                            .table
                            .iter()
                            .filter(|sp| {
                                sp.off < name_start
                                    && sp.off < 0x4000
                                    && sp.depth + 1 <= 16
                                    && sp.labels.len() == suffix.len()
                                    && sp.labels.iter().zip(suffix.iter()).all(|(a, b)| a == b)
                            })
                            .collect();
                        if cands.is_empty() {
                            continue;
                        }
                        if prefer_deep {
                            cands.sort_by_key(|sp| std::cmp::Reverse(sp.depth));
                            chosen = Some((i, cands[0].clone()));
                        } else {
                            let j = src.below(cands.len());
                            chosen = Some((i, cands[j].clone()));
                        }
                        break;
                    }
                }
            }
        }
        if may_compress && n > 0 {
            if let Layout::Deepest = self.layout {
                for i in 0..n {
                    let suffix = &name.0[i..];
                    let best = self
                        .table
                        .iter()
                        .filter(|sp| sp.off < name_start && sp.off < 0x4000 && sp.depth + 1 <= 16 && sp.labels.len() == suffix.len() && sp.labels.iter().zip(suffix.iter()).all(|(a, b)| a == b))
                        .max_by_key(|sp| (sp.depth, sp.off));
                    if let Some(sp) = best {
                        chosen = Some((i, sp.clone()));
                        break;
                    }
                }
            }
        }
        let lit = chosen.as_ref().map(|c| c.0).unwrap_or(n);
        let tail_depth = chosen.as_ref().map(|c| c.1.depth + 1).unwrap_or(0);
        for i in 0..lit {
            let off = self.out.len();
            if register && off < 0x4000 {
                self.table.push(SuffixPos { off, labels: name.0[i..].to_vec(), depth: tail_depth });
            }
            self.out.push(name.0[i].len() as u8);
            self.out.extend_from_slice(&name.0[i]);
        }
        match chosen {
            Some((i, sp)) => {
                let off = self.out.len();
                if register && off < 0x4000 {
                    // the pointer itself is a legal target (pointer to pointer)
                    self.table.push(SuffixPos { off, labels: name.0[i..].to_vec(), depth: tail_depth });
                }
                self.out.push(0xc0 | (sp.off >> 8) as u8);
                self.out.push(sp.off as u8);
                self.pointers += 1;
                self.max_depth = self.max_depth.max(tail_depth);
                if sp.off < 12 {
                    self.header_target_used = true;
                }
            }
            None => self.out.push(0),
        }
    }
}

/// If the 12 header bytes hold a label sequence ending in a root label inside
/// the header, return the positions at which suffixes start.
fn header_targets(h: &[u8]) -> Vec<SuffixPos> {
    let mut res = vec![];
    for start in 0..3usize {
        let mut pos = start;
        let mut labels: Vec<(usize, Vec<u8>)> = vec![];
        let ok = loop {
            if pos >= 12 {
                break false;
            }
            let l = h[pos] as usize;
            if l == 0 {
                break !labels.is_empty();
            }
            if l > 63 || pos + 1 + l > 12 {
                break false;
            }
            let lab = h[pos + 1..pos + 1 + l].to_vec();
            if !lab.iter().all(|&c| label_char_ok(c)) {
                break false;
            }
            labels.push((pos, lab));
            pos += 1 + l;
        };
        if ok {
            for i in 0..labels.len() {
                let off = labels[i].0;
                if res.iter().any(|sp: &SuffixPos| sp.off == off) {
                    continue;
                }
                res.push(SuffixPos { off, labels: labels[i..].iter().map(|x| x.1.clone()).collect(), depth: 0 });
            }
        }
    }
    res
}

/// Names a header yields as pointer targets (used by the generator to make
/// the question name coincide with one of them).
pub fn header_names(id: u16, flags: u16, counts: [u16; 4]) -> Vec<Name> {
    let mut h = vec![];
    h.extend_from_slice(&id.to_be_bytes());
    h.extend_from_slice(&flags.to_be_bytes());
    for c in counts {
        h.extend_from_slice(&c.to_be_bytes());
    }
    header_targets(&h).into_iter().map(|sp| Name(sp.labels)).collect()
}

pub fn encode(msg: &Message, layout: Layout) -> Encoded {
    let mut e = Encoder { out: Vec::with_capacity(512), table: vec![], layout, pointers: 0, max_depth: 0, header_target_used: false };
    e.out.extend_from_slice(&msg.id.to_be_bytes());
    e.out.extend_from_slice(&msg.flags.to_be_bytes());
    e.out.extend_from_slice(&(msg.qd.len() as u16).to_be_bytes());
    e.out.extend_from_slice(&(msg.an.len() as u16).to_be_bytes());
    e.out.extend_from_slice(&(msg.ns.len() as u16).to_be_bytes());
    e.out.extend_from_slice(&(msg.ar.len() as u16).to_be_bytes());
    if !matches!(e.layout, Layout::Literal) {
        e.table = header_targets(&e.out[..12]);
    }
    let mut enc = Encoded::default();
    for q in &msg.qd {
        let start = e.out.len();
        e.write_name(&q.name, true, q.name.clean());
        let name_end = e.out.len();
        e.out.extend_from_slice(&q.qtype.to_be_bytes());
        e.out.extend_from_slice(&q.qclass.to_be_bytes());
        enc.q = Some(RecOffsets { start, name_end, rdata_start: name_end, end: e.out.len() });
    }
    for s in 0..3 {
        for r in msg.section(s + 1) {
            let start = e.out.len();
            let is_opt = r.is_opt();
            e.write_name(&r.owner, !is_opt, r.owner.clean());
            let name_end = e.out.len();
            e.out.extend_from_slice(&r.rtype.to_be_bytes());
            e.out.extend_from_slice(&r.class.to_be_bytes());
            e.out.extend_from_slice(&r.ttl.to_be_bytes());
            let rdlen_at = e.out.len();
            e.out.extend_from_slice(&[0, 0]);
            let rstart = e.out.len();
            match &r.rdata {
                Rdata::A(a) => e.out.extend_from_slice(a),
                Rdata::Aaaa(a) => e.out.extend_from_slice(a),
                Rdata::Name1(n) => e.write_name(n, true, n.clean()),
                Rdata::Mx(p, n) => {
                    e.out.extend_from_slice(&p.to_be_bytes());
                    e.write_name(n, true, n.clean());
                }
                Rdata::Soa(a, b, f) => {
                    e.write_name(a, true, a.clean());
                    e.write_name(b, true, b.clean());
                    e.out.extend_from_slice(f);
                }
                Rdata::Dname(n) => e.write_name(n, false, n.clean()),
                Rdata::Opt(_) => {
                    let w = r.rdata_wire();
                    e.out.extend_from_slice(&w);
                }
                Rdata::Opaque(d) => {
                    // SRV-like opaque data: 6 bytes then a literal name; its
                    // suffixes are legal pointer targets for later names.
                    if r.rtype == T_SRV && d.len() > 6 {
                        if let Some(n) = Name::from_wire(&d[6..]) {
                            if n.clean() && n.well_formed() {
                                let base = e.out.len() + 6;
                                let mut off = base;
                                for i in 0..n.0.len() {
                                    if off < 0x4000 {
                                        e.table.push(SuffixPos { off, labels: n.0[i..].to_vec(), depth: 0 });
                                    }
                                    off += 1 + n.0[i].len();
                                }
                            }
                        }
                    }
                    e.out.extend_from_slice(d);
                }
            }
            let rdlen = e.out.len() - rstart;
            debug_assert!(rdlen <= 0xffff);
            e.out[rdlen_at] = (rdlen >> 8) as u8;
            e.out[rdlen_at + 1] = rdlen as u8;
            enc.recs[s].push(RecOffsets { start, name_end, rdata_start: rstart, end: e.out.len() });
        }
    }
    enc.bytes = e.out;
    enc.pointers = e.pointers;
    enc.max_depth = e.max_depth;
    enc.header_target_used = e.header_target_used;
    enc
}

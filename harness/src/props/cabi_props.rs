//! C15: the C function table is a faithful, memory-safe facade over the native API.
//!
//! A hook script is interpreted twice: by cdriver.c, compiled at check time by
//! the system C compiler against the header shipped with the library and handed
//! &fn_table(), and by a native Rust twin making the corresponding
//! ParsedPacket / iterator calls on a second object parsed from the same bytes.
//! Traces, final packet bytes and the object view must agree.  Table calls that
//! panic abort the process (extern "C"), so cases run in worker child processes.

use crate::gens::{self, GenOpts, NameCtx};
use crate::model::*;
use crate::props::known_sigs;
use crate::props::parse_props::lib_parse;
use crate::props::read_props::{check_summary, check_walks, gen_accepted};
use crate::props::xform_props::gen_rename_args;
use crate::refdec::{self, Decoded};
use crate::rrtext::{self, TextOpts};
use crate::runner::*;
use crate::src::Src;
use dnssector::c_abi::{fn_table, FnTable};
use dnssector::constants::Section;
use dnssector::synth::gen as dgen;
use dnssector::{DNSIterable, ParsedPacket, RdataIterable, ResponseIterator, TypedIterable};
use serde_json::json;
use std::ffi::CString;
use std::net::IpAddr;
use std::process::{Command, Stdio};

pub const HEADER_DIR: &str = "/repo/src/bin/c_hook";

pub fn so_path(verif_dir: &str) -> String {
    format!("{}/work/cdriver.so", verif_dir)
}

/// Compile the C driver against the shipped header. Err = compiler log.
pub fn compile_driver(verif_dir: &str) -> Result<String, String> {
    let _ = std::fs::create_dir_all(format!("{}/work", verif_dir));
    let out = so_path(verif_dir);
    let src = format!("{}/harness/cdriver.c", verif_dir);
    let r = Command::new("cc").args(["-shared", "-fPIC", "-O1", "-g", "-Wall", "-Wextra", "-Werror", "-I", HEADER_DIR, "-o", &out, &src]).output();
    match r {
        Ok(o) if o.status.success() => Ok(out),
        Ok(o) => Err(format!("{}{}", String::from_utf8_lossy(&o.stdout), String::from_utf8_lossy(&o.stderr))),
        Err(e) => Err(format!("cannot run cc: {}", e)),
    }
}

type RunScriptFn = unsafe extern "C" fn(*const FnTable, *mut ParsedPacket, *const u8, usize, *mut libc::c_char, usize) -> usize;

pub struct Driver {
    _handle: *mut libc::c_void,
    run_script: RunScriptFn,
    pub header_abi: u64,
    pub header_table_size: usize,
}

unsafe impl Sync for Driver {}
unsafe impl Send for Driver {}

impl Driver {
    pub fn load(path: &str) -> Result<Driver, String> {
        unsafe {
            let cpath = CString::new(path).unwrap();
            let h = libc::dlopen(cpath.as_ptr(), libc::RTLD_NOW);
            if h.is_null() {
                return Err(format!("dlopen {} failed", path));
            }
            let sym = |name: &str| -> Result<*mut libc::c_void, String> {
                let c = CString::new(name).unwrap();
                let p = libc::dlsym(h, c.as_ptr());
                if p.is_null() {
                    Err(format!("dlsym {} failed", name))
                } else {
                    Ok(p)
                }
            };
            let run_script: RunScriptFn = std::mem::transmute(sym("run_script")?);
            let abi: unsafe extern "C" fn() -> u64 = std::mem::transmute(sym("header_abi_version")?);
            let size: unsafe extern "C" fn() -> usize = std::mem::transmute(sym("header_fn_table_size")?);
            Ok(Driver { _handle: h, run_script, header_abi: abi(), header_table_size: size() })
        }
    }

    pub fn run(&self, table: &FnTable, pp: &mut ParsedPacket, script: &[u8]) -> String {
        let mut buf = vec![0u8; 1 << 20];
        let n = unsafe { (self.run_script)(table as *const FnTable, pp as *mut ParsedPacket, script.as_ptr(), script.len(), buf.as_mut_ptr() as *mut libc::c_char, buf.len()) };
        buf.truncate(n.min(buf.len()));
        String::from_utf8_lossy(&buf).into_owned()
    }
}

// ---------------------------------------------------------------------------
// script encoding
// ---------------------------------------------------------------------------

#[derive(Default)]
pub struct ScriptBuf {
    pub bytes: Vec<u8>,
    pub desc: Vec<String>,
}

impl ScriptBuf {
    fn u8(&mut self, v: u8) {
        self.bytes.push(v);
    }
    fn u16(&mut self, v: u16) {
        self.bytes.extend_from_slice(&v.to_le_bytes());
    }
    fn u32(&mut self, v: u32) {
        self.bytes.extend_from_slice(&v.to_le_bytes());
    }
    fn blob(&mut self, b: &[u8]) {
        self.u16(b.len() as u16);
        self.bytes.extend_from_slice(b);
    }
}

struct Rd<'a> {
    p: &'a [u8],
    pos: usize,
    bad: bool,
}

impl<'a> Rd<'a> {
    fn u8(&mut self) -> u8 {
        match self.p.get(self.pos) {
            Some(&v) => {
                self.pos += 1;
                v
            }
            None => {
                self.bad = true;
                0
            }
        }
    }
    fn u16(&mut self) -> u16 {
        let a = self.u8() as u16;
        let b = self.u8() as u16;
        a | (b << 8)
    }
    fn u32(&mut self) -> u32 {
        let a = self.u16() as u32;
        let b = self.u16() as u32;
        a | (b << 16)
    }
    fn blob(&mut self) -> &'a [u8] {
        let n = self.u16() as usize;
        if self.bad || self.pos + n > self.p.len() {
            self.bad = true;
            return &[];
        }
        let r = &self.p[self.pos..self.pos + n];
        self.pos += n;
        r
    }
}

// ---------------------------------------------------------------------------
// native twin
// ---------------------------------------------------------------------------

fn err_hex(e: &str) -> String {
    format!(" err={}", hex(e.as_bytes()))
}

/// One callback invocation on a response cursor; returns "stop".
fn native_cb(it: &mut ResponseIterator<'_>, prog: &[u8], sec: u8, idx: u32, tr: &mut String) -> bool {
    let mut r = Rd { p: prog, pos: 0, bad: false };
    let mut deleted = false;
    let mut stop = false;
    tr.push_str(&format!("cb sec={} idx={}\n", sec, idx));
    while r.pos < r.p.len() && !r.bad {
        let at = r.u8();
        let op = r.u8();
        let run = at == 0xff || at as u32 == idx;
        match op {
            0x21 => {
                if run && !deleted {
                    tr.push_str(&format!(" name={}\n", hex(&it.name())));
                }
            }
            0x22 => {
                if run && !deleted {
                    tr.push_str(&format!(" rr_type={}\n", it.rr_type()));
                }
            }
            0x23 => {
                if run && !deleted {
                    tr.push_str(&format!(" rr_class={}\n", it.rr_class()));
                }
            }
            0x24 => {
                if run && !deleted {
                    tr.push_str(&format!(" rr_ttl={}\n", it.rr_ttl()));
                }
            }
            0x25 => {
                let ttl = r.u32();
                if run && !deleted && !r.bad {
                    it.set_rr_ttl(ttl);
                    tr.push_str(&format!(" set_rr_ttl={}\n", ttl));
                }
            }
            0x26 => {
                if run && !deleted {
                    let ty = it.rr_type();
                    if ty == 1 || ty == 28 {
                        let b = match it.rr_ip().expect("A/AAAA record has an address") {
                            IpAddr::V4(a) => a.octets().to_vec(),
                            IpAddr::V6(a) => a.octets().to_vec(),
                        };
                        tr.push_str(&format!(" rr_ip len={} addr={}\n", b.len(), hex(&b)));
                    }
                }
            }
            0x27 => {
                let ip: Vec<u8> = (0..16).map(|_| r.u8()).collect();
                if run && !deleted && !r.bad {
                    let ty = it.rr_type();
                    if ty == 1 || ty == 28 {
                        let addr = if ty == 1 {
                            IpAddr::V4(std::net::Ipv4Addr::new(ip[0], ip[1], ip[2], ip[3]))
                        } else {
                            let mut a = [0u8; 16];
                            a.copy_from_slice(&ip);
                            IpAddr::V6(std::net::Ipv6Addr::from(a))
                        };
                        it.set_rr_ip(&addr).expect("matching family");
                        tr.push_str(&format!(" set_rr_ip n={}\n", if ty == 1 { 4 } else { 16 }));
                    }
                }
            }
            0x28 => {
                let raw = r.blob();
                if run && !r.bad {
                    match it.set_raw_name(raw) {
                        Ok(()) => tr.push_str(" set_raw_name rc=0\n"),
                        Err(e) => tr.push_str(&format!(" set_raw_name rc=-1{}\n", err_hex(&e.to_string()))),
                    }
                }
            }
            0x29 => {
                let name = r.blob();
                let zone = r.blob();
                if run && !r.bad {
                    let z = if zone.is_empty() { None } else { Some(zone) };
                    let res = dgen::raw_name_from_str(name, z).and_then(|raw| it.set_raw_name(&raw));
                    match res {
                        Ok(()) => tr.push_str(" set_name rc=0\n"),
                        Err(e) => tr.push_str(&format!(" set_name rc=-1{}\n", err_hex(&e.to_string()))),
                    }
                }
            }
            0x2c => {
                let name = r.blob();
                if run && !r.bad {
                    // a zero-length zone means "no zone", whatever the pointer
                    let res = dgen::raw_name_from_str(name, None).and_then(|raw| it.set_raw_name(&raw));
                    match res {
                        Ok(()) => tr.push_str(" set_name rc=0\n"),
                        Err(e) => tr.push_str(&format!(" set_name rc=-1{}\n", err_hex(&e.to_string()))),
                    }
                }
            }
            0x2a => {
                if run {
                    match it.delete() {
                        Ok(()) => {
                            tr.push_str(" delete_rr rc=0\n");
                            deleted = true;
                        }
                        Err(e) => tr.push_str(&format!(" delete_rr rc=-1{}\n", err_hex(&e.to_string()))),
                    }
                }
            }
            0x2b => {
                if run {
                    stop = true;
                    tr.push_str(" stop\n");
                }
            }
            _ => r.bad = true,
        }
    }
    stop
}

pub fn native_run(pp: &mut ParsedPacket, script: &[u8], table_abi: u64, header_abi: u64) -> String {
    let mut tr = String::new();
    let mut r = Rd { p: script, pos: 0, bad: false };
    tr.push_str(&format!("abi={} header_abi={}\n", table_abi, header_abi));
    while r.pos < r.p.len() && !r.bad {
        let op = r.u8();
        match op {
            0x01 => tr.push_str(&format!("flags={}\n", pp.flags())),
            0x02 => {
                let v = r.u32();
                if !r.bad {
                    pp.set_flags(v);
                    tr.push_str(&format!("set_flags={}\n", v));
                }
            }
            0x03 => tr.push_str(&format!("rcode={}\n", pp.rcode())),
            0x04 => {
                let v = r.u8();
                if !r.bad {
                    pp.set_rcode(v);
                    tr.push_str(&format!("set_rcode={}\n", v));
                }
            }
            0x05 => tr.push_str(&format!("opcode={}\n", pp.opcode())),
            0x06 => {
                let v = r.u8();
                if !r.bad {
                    pp.set_opcode(v);
                    tr.push_str(&format!("set_opcode={}\n", v));
                }
            }
            0x07 => match pp.question() {
                None => tr.push_str("question rc=-1 type=0 name=\n"),
                Some((name, ty, _)) => {
                    if name.len() > 255 {
                        tr.push_str(&format!("question rc=-1 type={} name=\n", ty));
                    } else {
                        let n = name.iter().position(|&c| c == 0).unwrap_or(name.len());
                        tr.push_str(&format!("question rc=0 type={} name={}\n", ty, hex(&name[..n])));
                    }
                }
            },
            0x08 => {
                let max = (r.u16() as usize).min(8192);
                if r.bad {
                    break;
                }
                let p = pp.packet();
                if p.len() > max {
                    tr.push_str(&format!("raw_packet max={} rc=-1\n", max));
                } else {
                    tr.push_str(&format!("raw_packet max={} rc=0 len={} bytes={}\n", max, p.len(), hex(p)));
                }
            }
            0x09 => {
                let sec = r.u8();
                let text = r.blob();
                if r.bad || text.is_empty() || *text.last().unwrap() != 0 {
                    break;
                }
                let s = &text[..text.len() - 1];
                let section = match sec {
                    0 => Section::Question,
                    1 => Section::Answer,
                    2 => Section::NameServers,
                    _ => Section::Additional,
                };
                let res = match std::str::from_utf8(s) {
                    Ok(s) => pp.insert_rr_from_string(section, s).map_err(|e| e.to_string()),
                    Err(_) => Err("Parse error".to_string()),
                };
                match res {
                    Ok(()) => tr.push_str(&format!("add sec={} rc=0\n", sec)),
                    Err(e) => tr.push_str(&format!("add sec={} rc=-1{}\n", sec, err_hex(&e))),
                }
            }
            0x0a => {
                let suffix = r.u8();
                let target = r.blob();
                let source = r.blob();
                if r.bad {
                    break;
                }
                match pp.rename_with_raw_names(target, source, suffix != 0) {
                    Ok(()) => tr.push_str("rename rc=0\n"),
                    Err(e) => tr.push_str(&format!("rename rc=-1{}\n", err_hex(&e.to_string()))),
                }
            }
            0x0b => {
                let name = r.blob();
                if r.bad {
                    break;
                }
                match dgen::raw_name_from_str(name, None) {
                    Ok(raw) => tr.push_str(&format!("raw_name_from_str rc=0 raw={}\n", hex(&raw))),
                    Err(e) => tr.push_str(&format!("raw_name_from_str rc=-1{}\n", err_hex(&e.to_string()))),
                }
            }
            0x0c => {
                let sec = r.u8();
                let prog = r.blob();
                if r.bad {
                    break;
                }
                tr.push_str(&format!("iter sec={}\n", sec));
                let mut idx = 0u32;
                if (1..=3).contains(&sec) {
                    let mut it = match sec {
                        1 => pp.into_iter_answer(),
                        2 => pp.into_iter_nameservers(),
                        _ => pp.into_iter_additional(),
                    };
                    while let Some(mut item) = it {
                        let stop = native_cb(&mut item, prog, sec, idx, &mut tr);
                        idx += 1;
                        if stop {
                            break;
                        }
                        it = item.next();
                    }
                } else {
                    let mut it = pp.into_iter_edns();
                    while let Some(item) = it {
                        tr.push_str(&format!("edns cb idx={}\n", idx));
                        idx += 1;
                        if !prog.is_empty() && prog[0] != 0xff && idx > prog[0] as u32 {
                            break;
                        }
                        it = item.next();
                    }
                }
                tr.push_str(&format!("iter end calls={}\n", idx));
            }
            _ => r.bad = true,
        }
    }
    tr
}

// ---------------------------------------------------------------------------
// script generation
// ---------------------------------------------------------------------------

fn gen_cb_prog(src: &mut Src, m: &Message, sec: usize, s: &mut ScriptBuf, st: &mut Stats) -> Vec<u8> {
    let mut p = ScriptBuf::default();
    let count = m.section(sec).iter().filter(|r| !r.is_opt()).count().max(1);
    let nops = src.range(1, 7);
    let mut ctx = NameCtx::default();
    for q in &m.qd {
        if !q.name.is_root() {
            ctx.used.push(q.name.clone());
        }
    }
    for _ in 0..nops {
        let at = if src.chance(110) { 0xff } else { src.below(count.min(250)) as u8 };
        p.u8(at);
        match src.weighted(&[5, 3, 2, 3, 3, 3, 3, 5, 4, 4, 1]) {
            0 => p.u8(0x21),
            1 => p.u8(0x22),
            2 => p.u8(0x23),
            3 => p.u8(0x24),
            4 => {
                p.u8(0x25);
                p.u32(src.u32());
                st.class("cb:set_rr_ttl");
            }
            5 => p.u8(0x26),
            6 => {
                p.u8(0x27);
                for _ in 0..16 {
                    p.u8(src.u8());
                }
                st.class("cb:set_rr_ip");
            }
            7 => {
                p.u8(0x28);
                let raw = if src.chance(60) {
                    match src.below(4) {
                        0 => vec![64u8; 66],
                        1 => vec![1, b'a', 0xc0, 0x0c],
                        2 => vec![],
                        _ => vec![2, b'a', b'.', 0],
                    }
                } else {
                    let n = gens::gen_name(src, &mut ctx);
                    if n.clean() && n.well_formed() {
                        n.to_wire()
                    } else {
                        vec![1, b'k', 0]
                    }
                };
                p.blob(&raw);
                st.class("cb:set_raw_name");
            }
            8 => {
                p.u8(0x29);
                let mut f = vec![];
                // incl. names the string conversion lets through but the validator behind set_raw_name refuses
                let text = if src.chance(70) {
                    (*src.pick(&[&b"a..b"[..], b"", b".", b"x.", b"-bad-.example", b"UPPER.Example", b"back\\slash.example", b"bell\x07.example", b"sp ace.example", b"nul\x00.example", b"tab\there", b"del\x7f.x"])).to_vec()
                } else {
                    rrtext::gen_host(src, 200, &mut f, true).0.into_bytes()
                };
                if src.chance(50) {
                    // rewrite the opcode just pushed: non-NULL zero-length zone variant
                    let l = p.bytes.len();
                    p.bytes[l - 1] = 0x2c;
                    p.blob(&text);
                    st.class("cb:set_name-empty-zone-buffer");
                } else {
                    p.blob(&text);
                    let zone = match src.below(7) {
                        0 => vec![],
                        1 | 2 => Name::from_dotted("zone.example").to_wire(),
                        3 => Name::root().to_wire(),
                        // zones that are not well-formed raw names: a pointer, no terminator, a forbidden byte
                        4 => vec![4, b'z', b'o', b'n', b'e', 0xc0, 0x0c],
                        5 => vec![4, b'z', b'o', b'n', b'e'],
                        _ => vec![3, b'z', b'.', b'e', 0],
                    };
                    if zone.len() > 1 && zone != Name::from_dotted("zone.example").to_wire() {
                        st.class("cb:set_name-malformed-zone");
                    }
                    p.blob(&zone);
                }
                st.class("cb:set_name");
            }
            9 => {
                p.u8(0x2a);
                st.class("cb:delete_rr");
            }
            _ => p.u8(0x2b),
        }
    }
    s.desc.push(format!("iter sec{} prog={}", sec, hex(&p.bytes)));
    p.bytes
}

pub fn gen_script(src: &mut Src, d: &Decoded, st: &mut Stats) -> ScriptBuf {
    let mut s = ScriptBuf::default();
    let m = &d.msg;
    let qr = m.is_response();
    let has_anns = !m.an.is_empty() || !m.ns.is_empty();
    let n = src.range(1, 10);
    let mut mutated_in_cb = false;
    for _ in 0..n {
        match src.weighted(&[3, 2, 2, 2, 2, 2, 3, 3, 6, 3, 3, 12]) {
            0 => {
                s.u8(0x01);
                s.desc.push("flags".into());
            }
            1 => {
                // a few recurring values: the same argument then meets different header words
                // (within a script and across the scripts of a worker process)
                let mut v = if src.chance(128) { *src.pick(&[0u32, 0xffff_ffff, 0x8180, 0x0100, 0x8000_8000, 0x0010]) } else { src.u32() };
                if has_anns || qr {
                    v |= 0x8000; // QR gating: scripts may add answer records later
                }
                s.u8(0x02);
                s.u32(v);
                s.desc.push(format!("set_flags({:#x})", v));
            }
            2 => {
                s.u8(0x03);
                s.desc.push("rcode".into());
            }
            3 => {
                let v = if src.chance(128) { *src.pick(&[0u8, 3, 15, 16, 255]) } else { src.u8() };
                s.u8(0x04);
                s.u8(v);
                s.desc.push(format!("set_rcode({})", v));
            }
            4 => {
                s.u8(0x05);
                s.desc.push("opcode".into());
            }
            5 => {
                let v = if src.chance(128) { *src.pick(&[0u8, 4, 15, 16, 255]) } else { src.u8() };
                s.u8(0x06);
                s.u8(v);
                s.desc.push(format!("set_opcode({})", v));
            }
            6 => {
                s.u8(0x07);
                s.desc.push("question".into());
            }
            7 => {
                let max = *src.pick(&[8192u16, 0, 12, 100, 512, 4096, 8191]);
                s.u8(0x08);
                s.u16(max);
                s.desc.push(format!("raw_packet(max {})", max));
            }
            8 => {
                let sec = if src.chance(16) {
                    0
                } else if qr {
                    src.range(1, 3)
                } else {
                    3
                };
                let tc = rrtext::gen_valid(src, &TextOpts { max_wire: 100, ..TextOpts::default() });
                let text = if src.chance(50) { rrtext::damage_text(src, &tc).0 } else { tc.text };
                if text.len() > 1500 || text.contains('\0') {
                    continue;
                }
                let mut t = text.clone().into_bytes();
                t.push(0);
                s.u8(0x09);
                s.u8(sec as u8);
                s.blob(&t);
                s.desc.push(format!("add_to_{}({:?})", sec, text.chars().take(80).collect::<String>()));
                st.class("top:add");
            }
            9 => {
                let a = gen_rename_args(src, m);
                if !a.source.clean() || !a.target.clean() || !a.source.well_formed() || !a.target.well_formed() {
                    continue;
                }
                s.u8(0x0a);
                s.u8(a.suffix as u8);
                s.blob(&a.target.to_wire());
                s.blob(&a.source.to_wire());
                s.desc.push(format!("rename({} <- {}, suffix={})", a.target.show(), a.source.show(), a.suffix));
                st.class("top:rename");
            }
            10 => {
                let mut f = vec![];
                let text = if src.chance(80) { (*src.pick(&["a..b", "", ".", "a.b.", "x"])).as_bytes().to_vec() } else { rrtext::gen_host(src, 253, &mut f, true).0.into_bytes() };
                s.u8(0x0b);
                s.blob(&text);
                s.desc.push(format!("raw_name_from_str({:?})", String::from_utf8_lossy(&text).chars().take(60).collect::<String>()));
            }
            _ => {
                let sec = src.range(1, 4);
                s.u8(0x0c);
                s.u8(sec as u8);
                if sec == 4 {
                    let stop = if src.chance(128) { 0xff } else { src.below(3) as u8 };
                    s.blob(&[stop]);
                    s.desc.push(format!("iter_edns(stop={})", stop));
                    st.class("top:iter_edns");
                } else {
                    let prog = gen_cb_prog(src, m, sec, &mut s, st);
                    if prog.iter().any(|&b| b == 0x25 || b == 0x27 || b == 0x28 || b == 0x29 || b == 0x2a || b == 0x2c) {
                        mutated_in_cb = true;
                    }
                    s.blob(&prog);
                    st.class("top:iter");
                }
            }
        }
        if mutated_in_cb {
            st.class("call-after-callback-mutation");
        }
    }
    s
}

// ---------------------------------------------------------------------------
// the property
// ---------------------------------------------------------------------------

pub struct CabiEnv {
    pub driver: Driver,
    pub table: FnTable,
    /// file the current case is written to before it runs (crash attribution)
    pub scratch: Option<String>,
}

unsafe impl Sync for CabiEnv {}

pub fn c15_case(env: &CabiEnv, data: &[u8], st: &mut Stats) -> PResult {
    if let Some(p) = &env.scratch {
        let _ = std::fs::write(p, data);
    }
    let mut src = Src::new(data);
    let o = GenOpts { big: false, many: false, max_small: 4, header_names: false, ..GenOpts::default() };
    let (bytes, d) = if src.chance(10) {
        // a packet of exactly 8190..8193 bytes (the 8192-byte limit of insertions and of raw_packet's buffer)
        let (mut m, _) = gens::gen_packet(&mut src, &o);
        let target = *src.pick(&[8192usize, 8191, 8193, 8190]);
        let l0 = crate::enc::encode(&m, crate::enc::Layout::Literal).bytes.len();
        if l0 + 11 > target {
            st.class("skipped:message-too-large-for-exact-size");
            return Ok(());
        }
        m.ar.push(Record { owner: Name::root(), rtype: T_TXT, class: 1, ttl: 1, rdata: Rdata::Opaque(vec![0x41; target - l0 - 11]) });
        let bytes = crate::enc::encode(&m, crate::enc::Layout::Literal).bytes;
        ensure!(bytes.len() == target, "HARNESS: exact-size packet has another size", "{} vs {}", bytes.len(), target);
        match refdec::decode_strict(&bytes) {
            Some(d) => {
                st.class(&format!("start:exactly-{}-bytes", target));
                (bytes, d)
            }
            None => {
                st.class("skipped:not-accepted-by-reference");
                return Ok(());
            }
        }
    } else {
        match gen_accepted(&mut src, &o) {
            Some((b, d, _)) => (b, d),
            None => {
                st.class("skipped:not-accepted-by-reference");
                return Ok(());
            }
        }
    };
    if d.all_name_infos().iter().any(|n| n.ptrs.iter().any(|p| p.1 < 12)) {
        st.class("skipped:header-pointer");
        return Ok(());
    }
    let (mut pp_c, mut pp_n) = match (lib_parse(&bytes), lib_parse(&bytes)) {
        (Ok(Ok(a)), Ok(Ok(b))) => (a, b),
        _ => {
            st.class("skipped:parser-rejects");
            return Ok(());
        }
    };
    let before = st.count("call-after-callback-mutation");
    let script = gen_script(&mut src, &d, st);
    let nontrivial = st.frozen || st.count("call-after-callback-mutation") > before;
    let ctxs = || format!("packet={} script={:?}", hex_abbrev(&bytes), script.desc);
    // native first: if the native side panics the case is not a facade problem
    let table_abi = env.table.abi_version;
    let native = match catch(|| native_run(&mut pp_n, &script.bytes, table_abi, env.driver.header_abi)) {
        Ok(t) => t,
        Err(_) => {
            st.class("skipped:native-panics");
            return Ok(());
        }
    };
    let ctrace = env.driver.run(&env.table, &mut pp_c, &script.bytes);
    ensure!(env.table.abi_version == env.driver.header_abi, "C15 abi-version-differs-from-header", "table {} header {}", env.table.abi_version, env.driver.header_abi);
    if std::env::var("VERIF_DEBUG_TRACES").is_ok() {
        eprintln!("--- C trace\n{}\n--- native trace\n{}", ctrace, native);
    }
    if ctrace != native {
        // first differing line
        let (mut ln, mut a, mut b) = (0, "", "");
        for (i, (x, y)) in ctrace.lines().zip(native.lines()).enumerate() {
            if x != y {
                ln = i;
                a = x;
                b = y;
                break;
            }
        }
        if a.is_empty() && b.is_empty() {
            ln = ctrace.lines().count().min(native.lines().count());
            a = ctrace.lines().nth(ln).unwrap_or("<end>");
            b = native.lines().nth(ln).unwrap_or("<end>");
        }
        let what = if ctrace.contains("CANARY") { "C15 buffer-discipline-violated" } else { "C15 trace-differs" };
        let key: String = b.trim().split(|c| c == '=' || c == ' ').next().unwrap_or("").to_string();
        fail!(format!("{} at {}", what, key), "line {}: C hook saw {:?}, native API gives {:?}; {}", ln, a.chars().take(300).collect::<String>(), b.chars().take(300).collect::<String>(), ctxs());
    }
    ensure!(pp_c.packet == pp_n.packet, "C15 final-packets-differ", "C: {} native: {}; {}", hex_abbrev(pp_c.packet.as_deref().unwrap_or(&[])), hex_abbrev(pp_n.packet.as_deref().unwrap_or(&[])), ctxs());
    // the object driven through the table still matches its own bytes (C08 view)
    if let Some(b) = pp_c.packet.clone() {
        if let Ok(d2) = refdec::decode(&b, refdec::Opts { allow_no_question: true }) {
            if !d2.quirk {
                let r = catch(|| -> PResult {
                    check_summary(&mut pp_c, &d2, 3, "C15", false)?;
                    check_walks(&mut pp_c, &d2, &b, 1, "C15")
                });
                match r {
                    Err(pm) => fail!(format!("C15 view-panic {}", panic_sig(&pm)), "{}; {}", pm, ctxs()),
                    Ok(r) => r.map_err(|f| Failure::new(f.sig, format!("{}; {}", f.detail, ctxs())))?,
                }
            }
        }
    }
    st.class(&format!("opt:{:?}", gens::opt_pos(&d.msg)));
    if native.contains("rc=-1") {
        st.class("failing-call");
    }
    if nontrivial {
        st.nontrivial(&(bytes.clone(), script.bytes.clone()));
        if st.wants_sample("script") {
            st.sample("script", json!({"packet": hex_abbrev(&bytes), "script": script.desc, "trace_head": native.lines().take(12).collect::<Vec<_>>()}));
        }
    }
    Ok(())
}

pub fn make_env(verif_dir: &str, scratch: Option<String>) -> Result<CabiEnv, String> {
    let driver = Driver::load(&so_path(verif_dir))?;
    Ok(CabiEnv { driver, table: fn_table(), scratch })
}

/// Worker process: runs `cases` generated cases single-threaded and prints a JSON summary.
pub fn worker_main(verif_dir: &str, seed: u64, stream: u64, cases: u64, scratch: &str) -> i32 {
    let env = match make_env(verif_dir, Some(scratch.to_string())) {
        Ok(e) => e,
        Err(e) => {
            eprintln!("worker: {}", e);
            return 2;
        }
    };
    let ctx = Ctx { tier: Tier::Quick, seed, threads: 1, scale: 1.0, verif_dir: verif_dir.to_string() };
    let known = load_known(verif_dir);
    let ks = known_sigs(&known, "C15");
    let prop = (1500usize, |d: &[u8], st: &mut Stats| c15_case(&env, d, st));
    let (stats, founds, khits) = drive(&prop, cases, &ctx, stream, &ks);
    let out = json!({
        "evals": stats.evals,
        "excluded": stats.excluded,
        "classes": stats.classes,
        "nontrivial": stats.nontrivial.iter().collect::<Vec<_>>(),
        "samples": stats.samples,
        "founds": founds.iter().map(|f| json!({"sig": f.failure.sig, "detail": f.failure.detail, "data": hex(&f.data)})).collect::<Vec<_>>(),
        "known_hits": khits,
    });
    println!("{}", out);
    let _ = std::fs::remove_file(scratch);
    0
}

/// Run one case (choice bytes in a file) in this process: exit 0 held, 1 failed; a crash aborts.
pub fn one_main(verif_dir: &str, file: &str) -> i32 {
    let data = std::fs::read(file).unwrap_or_default();
    let env = match make_env(verif_dir, None) {
        Ok(e) => e,
        Err(e) => {
            eprintln!("one: {}", e);
            return 2;
        }
    };
    match catch(|| c15_case(&env, &data, &mut Stats::default())) {
        Ok(Ok(())) => 0,
        Ok(Err(f)) => {
            println!("{}\n{}", f.sig, f.detail);
            1
        }
        Err(pm) => {
            println!("harness-panic {}", pm);
            1
        }
    }
}

fn run_one_in_child(verif_dir: &str, data: &[u8], tag: &str) -> Option<i32> {
    let f = format!("{}/work/c15-one-{}-{}.bin", verif_dir, std::process::id(), tag);
    std::fs::write(&f, data).ok()?;
    let exe = std::env::current_exe().ok()?;
    let st = Command::new(exe).args(["c15-one", &f]).env("VERIF_DIR", verif_dir).stdout(Stdio::null()).stderr(Stdio::null()).status().ok()?;
    let _ = std::fs::remove_file(&f);
    // None = killed by a signal (crash)
    st.code()
}

/// Shrink a crashing case by re-running truncated / zeroed choice strings in fresh children.
fn shrink_crash(verif_dir: &str, data: &[u8]) -> Vec<u8> {
    let crashes = |d: &[u8]| -> bool { matches!(run_one_in_child(verif_dir, d, "shrink"), None | Some(134) | Some(139)) };
    let mut cur = data.to_vec();
    let mut budget = 60;
    // truncate
    let mut len = cur.len();
    while len > 0 && budget > 0 {
        let cand = &cur[..len / 2];
        budget -= 1;
        if crashes(cand) {
            cur = cand.to_vec();
            len = cur.len();
        } else {
            break;
        }
    }
    // zero blocks
    let mut block = (cur.len() / 4).max(1);
    while block >= 1 && budget > 0 {
        let mut i = 0;
        while i < cur.len() && budget > 0 {
            let mut cand = cur.clone();
            let end = (i + block).min(cand.len());
            if cand[i..end].iter().all(|&b| b == 0) {
                i += block;
                continue;
            }
            for b in &mut cand[i..end] {
                *b = 0;
            }
            budget -= 1;
            if crashes(&cand) {
                cur = cand;
            }
            i += block;
        }
        if block == 1 {
            break;
        }
        block /= 2;
    }
    cur
}

pub fn replay_c15(data: &[u8]) -> PResult {
    // replay in a child so that an aborting table call is reported, not fatal
    let verif_dir = std::env::var("VERIF_DIR").unwrap_or_else(|_| "/verif".to_string());
    if data.starts_with(b"compile-log:") {
        return match compile_driver(&verif_dir) {
            Ok(_) => Ok(()),
            Err(log) => Err(Failure::new("C15 hook-does-not-compile-against-shipped-header", log)),
        };
    }
    if compile_driver(&verif_dir).is_err() {
        return Err(Failure::new("C15 hook-does-not-compile-against-shipped-header", "see compile log"));
    }
    match run_one_in_child(&verif_dir, data, "replay") {
        Some(0) => Ok(()),
        Some(1) => {
            let env = make_env(&verif_dir, None).map_err(|e| Failure::new("HARNESS: driver", e))?;
            c15_case(&env, data, &mut Stats::default())
        }
        other => Err(Failure::new("C15 table-call-crashed", format!("child exit status {:?}", other))),
    }
}

pub fn check_c15(ctx: &Ctx, known: &KnownFindings) -> Report {
    let mut rep = Report::new("C15");
    let ks = known_sigs(known, "C15");
    rep.rule = "accepted packets (small, any layout, OPT anywhere; 1 in 25 padded to exactly 8190..8193 bytes) x hook scripts of 1..10 top-level table calls (flags/set_flags/rcode/set_rcode/opcode/set_opcode/question/raw_packet/add_to_*/rename_with_raw_names/raw_name_from_str/iter_answer|nameservers|additional|edns) whose iter callbacks run nested programs on the cursor (name, rr_type, rr_class, rr_ttl, set_rr_ttl, rr_ip, set_rr_ip, set_raw_name, set_name with/without zone, delete_rr, early stop; each op on every record or on one index). The script is interpreted by cdriver.c (compiled with cc -Wall -Wextra -Werror against /repo/src/bin/c_hook/c_hook.h, called through &fn_table()) and by a native Rust twin on a second object. Oracle: identical traces (every return value, out-buffer content and length, error description), identical final packet bytes, C08 view of the C-driven object; canary-filled arenas around every out-buffer (names NUL-terminated within 256 bytes, exactly 4/16 address bytes, packet written only when it fits); abi_version == DNSSECTOR_ABI_VERSION; sizeof(FnTable) agrees; no crash (cases run in child processes; an abnormal exit is attributed to the case written to the scratch file). Non-trivial: a mutating call inside a callback followed by at least one more call; distinct = hash(packet, script).".into();
    rep.assumptions = vec![
        "documented preconditions respected: rr_ip/set_rr_ip only on A/AAAA with the matching length, accessors only on live cursors inside the callback (after a successful delete_rr only delete_rr again), raw_packet capacity <= 8192, no accessors on EDNS cursors".into(),
        "QR gating as in C08; start packets have no name pointing into the header".into(),
        "memory safety is observed through canaries and crashes on the inputs tried, not proved".into(),
    ];
    // 1. the hook must compile against the shipped header
    let log_path = format!("{}/replays/C15/compile.log", ctx.verif_dir);
    let _ = std::fs::create_dir_all(format!("{}/replays/C15", ctx.verif_dir));
    match compile_driver(&ctx.verif_dir) {
        Ok(_) => {
            rep.stats.class("driver-compiled-against-shipped-header");
            rep.stats.evals += 1;
        }
        Err(log) => {
            let _ = std::fs::write(&log_path, &log);
            let f = Failure::new("C15 hook-does-not-compile-against-shipped-header", format!("a hook using every table entry as declared does not compile against {}/c_hook.h:\n{}", HEADER_DIR, log));
            if ks.iter().any(|k| f.sig.contains(k.as_str())) {
                rep.stats.excluded += 1;
                *rep.known_hits.entry(ks.iter().find(|k| f.sig.contains(k.as_str())).unwrap().clone()).or_insert(0) += 1;
            } else {
                rep.founds.push(Found { failure: f, data: b"compile-log:".to_vec() });
            }
            return rep;
        }
    }
    // 2. table size as seen through the header
    match make_env(&ctx.verif_dir, None) {
        Ok(env) => {
            let r: PResult = (|| {
                ensure!(env.driver.header_table_size == std::mem::size_of::<FnTable>(), "C15 table-size-differs-from-header", "sizeof(FnTable) in C = {}, in Rust = {}", env.driver.header_table_size, std::mem::size_of::<FnTable>());
                ensure!(env.table.abi_version == env.driver.header_abi, "C15 abi-version-differs-from-header", "table {} header {}", env.table.abi_version, env.driver.header_abi);
                Ok(())
            })();
            rep.direct("table-size-and-abi", Ok(r), &ks);
        }
        Err(e) => {
            rep.direct("load-driver", Ok(Err(Failure::new("HARNESS: cannot load the C driver", e))), &ks);
            return rep;
        }
    }
    // 3. generated scripts in worker processes
    let workers = ctx.threads.max(1);
    let total = ctx.cases(60_000, 1_200_000);
    let per = (total + workers as u64 - 1) / workers as u64;
    let exe = match std::env::current_exe() {
        Ok(e) => e,
        Err(_) => return rep,
    };
    let mut children = vec![];
    for w in 0..workers {
        let scratch = format!("{}/work/c15-scratch-{}-{}.bin", ctx.verif_dir, std::process::id(), w);
        let child = Command::new(&exe)
            .args(["c15-worker", &ctx.seed.to_string(), &(1500 + w as u64).to_string(), &per.to_string(), &scratch])
            .env("VERIF_DIR", &ctx.verif_dir)
            .stdout(Stdio::piped())
            .stderr(Stdio::null())
            .spawn();
        if let Ok(c) = child {
            children.push((c, scratch));
        }
    }
    for (c, scratch) in children {
        let out = match c.wait_with_output() {
            Ok(o) => o,
            Err(_) => continue,
        };
        if out.status.success() {
            if let Ok(v) = serde_json::from_slice::<serde_json::Value>(&out.stdout) {
                rep.stats.evals += v["evals"].as_u64().unwrap_or(0);
                rep.stats.excluded += v["excluded"].as_u64().unwrap_or(0);
                if let Some(cl) = v["classes"].as_object() {
                    for (k, n) in cl {
                        rep.stats.class_n(k, n.as_u64().unwrap_or(0));
                    }
                }
                if let Some(nt) = v["nontrivial"].as_array() {
                    for h in nt {
                        if let Some(h) = h.as_u64() {
                            rep.stats.nontrivial.insert(h);
                        }
                    }
                }
                if let Some(sm) = v["samples"].as_object() {
                    for (k, s) in sm {
                        if let Some(first) = s.as_array().and_then(|a| a.first()) {
                            rep.stats.sample(k, first.clone());
                        }
                    }
                }
                if let Some(fs) = v["founds"].as_array() {
                    for f in fs {
                        rep.founds.push(Found {
                            failure: Failure::new(f["sig"].as_str().unwrap_or("C15 failure"), f["detail"].as_str().unwrap_or("")),
                            data: unhex(f["data"].as_str().unwrap_or("")).unwrap_or_default(),
                        });
                    }
                }
                if let Some(kh) = v["known_hits"].as_object() {
                    for (k, n) in kh {
                        *rep.known_hits.entry(k.clone()).or_insert(0) += n.as_u64().unwrap_or(0);
                    }
                }
            }
        } else {
            // abnormal exit: the case in the scratch file crashed the process
            let data = std::fs::read(&scratch).unwrap_or_default();
            let _ = std::fs::remove_file(&scratch);
            let small = shrink_crash(&ctx.verif_dir, &data);
            let f = Failure::new(
                "C15 table-call-crashed",
                format!("a worker process died ({:?}) while running a hook script: a table call crashed instead of returning -1 / a value. Shrunk choice string: {} bytes (replay runs it in a child process).", out.status, small.len()),
            );
            if let Some(k) = ks.iter().find(|k| f.sig.contains(k.as_str())) {
                rep.stats.excluded += 1;
                *rep.known_hits.entry(k.clone()).or_insert(0) += 1;
            } else {
                rep.founds.push(Found { failure: f, data: small });
            }
        }
    }
    rep.require(&["driver-compiled-against-shipped-header", "top:iter", "top:iter_edns", "top:add", "top:rename", "cb:set_rr_ttl", "cb:set_rr_ip", "cb:set_raw_name", "cb:set_name", "cb:set_name-empty-zone-buffer", "cb:set_name-malformed-zone", "cb:delete_rr", "call-after-callback-mutation", "failing-call", "opt:First", "opt:Middle", "opt:Last", "start:exactly-8192-bytes", "start:exactly-8191-bytes", "start:exactly-8193-bytes"]);
    rep
}

pub mod parse_props;

use crate::runner::{Ctx, KnownFindings, Report};

pub type CheckFn = fn(&Ctx, &KnownFindings) -> Report;
pub type ReplayFn = fn(&[u8]) -> crate::runner::PResult;

pub fn known_sigs(k: &KnownFindings, id: &str) -> Vec<String> {
    k.open.iter().filter(|o| o.property == id).map(|o| o.signature.clone()).collect()
}

pub fn registry() -> Vec<(&'static str, CheckFn, ReplayFn)> {
    vec![
        ("C01", parse_props::check_c01 as CheckFn, parse_props::replay_c01 as ReplayFn),
        ("C02", parse_props::check_c02, parse_props::replay_c02),
    ]
}

pub mod parse_props;
pub mod read_props;
pub mod xform_props;

use crate::runner::{Ctx, KnownFindings, Report};

pub type CheckFn = fn(&Ctx, &KnownFindings) -> Report;
pub type ReplayFn = fn(&[u8]) -> crate::runner::PResult;

pub fn known_sigs(k: &KnownFindings, id: &str) -> Vec<String> {
    k.open.iter().filter(|o| o.property == id).map(|o| o.signature.clone()).collect()
}

pub fn registry() -> Vec<(&'static str, CheckFn, ReplayFn)> {
    vec![
        ("C01", parse_props::check_c01 as CheckFn, parse_props::replay_c01 as ReplayFn),
        ("C02", parse_props::check_c02, parse_props::replay_c02),
        ("C03", read_props::check_c03, read_props::replay_c03),
        ("C04", read_props::check_c04, read_props::replay_c04),
        ("C05", xform_props::check_c05, xform_props::replay_c05),
        ("C06", xform_props::check_c06, xform_props::replay_c06),
        ("C07", xform_props::check_c07, xform_props::replay_c07),
    ]
}

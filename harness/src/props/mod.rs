pub mod parse_props;
pub mod read_props;
pub mod xform_props;
pub mod ops_props;
pub mod del_props;
pub mod hdr_props;
pub mod synth_props;
pub mod cost_props;
pub mod conc_props;
pub mod cabi_props;

use crate::runner::{Ctx, KnownFindings, Report};

pub type CheckFn = fn(&Ctx, &KnownFindings) -> Report;
pub type ReplayFn = fn(&[u8]) -> crate::runner::PResult;

pub fn known_sigs(k: &KnownFindings, id: &str) -> Vec<String> {
    k.open.iter().filter(|o| o.property == id).map(|o| o.signature.clone()).collect()
}

pub fn registry() -> Vec<(&'static str, CheckFn, ReplayFn)> {
    vec![
        ("C01", parse_props::check_c01 as CheckFn, parse_props::replay_c01 as ReplayFn),
        ("C02", parse_props::check_c02, parse_props::replay_c02),
        ("C03", read_props::check_c03, read_props::replay_c03),
        ("C04", read_props::check_c04, read_props::replay_c04),
        ("C05", xform_props::check_c05, xform_props::replay_c05),
        ("C06", xform_props::check_c06, xform_props::replay_c06),
        ("C07", xform_props::check_c07, xform_props::replay_c07),
        ("C08", ops_props::check_c08, ops_props::replay_c08),
        ("C09", ops_props::check_c09, ops_props::replay_c09),
        ("C10", ops_props::check_c10, ops_props::replay_c10),
        ("C11", del_props::check_c11, del_props::replay_c11),
        ("C12", hdr_props::check_c12, hdr_props::replay_c12),
        ("C13", synth_props::check_c13, synth_props::replay_c13),
        ("C14", synth_props::check_c14, synth_props::replay_c14),
        ("C15", cabi_props::check_c15, cabi_props::replay_c15),
        ("C16", conc_props::check_c16, conc_props::replay_c16),
        ("C17", conc_props::check_c17, conc_props::replay_c17),
        ("C18", cost_props::check_c18, cost_props::replay_c18),
    ]
}

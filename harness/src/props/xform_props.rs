//! C05 (decompression), C06 (compression), C07 (renaming).

use crate::enc::{self, Layout};
use crate::gens::{self, GenOpts, NameCtx};
use crate::model::*;
use crate::props::known_sigs;
use crate::props::parse_props::lib_parse;
use crate::props::read_props::{check_summary, check_walks, gen_accepted, opt_rec};
use crate::refdec::{self, Decoded};
use crate::runner::*;
use crate::src::Src;
use dnssector::{Compress, DNSSector, Renamer};
use serde_json::json;

// ---------------------------------------------------------------------------
// C05
// ---------------------------------------------------------------------------

pub fn c05_oracle(bytes: &[u8], d: &Decoded, src: &mut Src, st: &mut Stats) -> PResult {
    let out = match catch(|| Compress::uncompress(bytes).map_err(|e| e.to_string())) {
        Err(pm) => fail!(format!("C05 uncompress-panic {}", panic_sig(&pm)), "panic={} packet={} decoded={}", pm, hex_abbrev(bytes), d.msg.show()),
        Ok(Err(e)) => fail!("C05 uncompress-fails", "error {:?} on accepted packet {}", e, hex_abbrev(bytes)),
        Ok(Ok(o)) => o,
    };
    let d2 = match refdec::decode(&out, refdec::Opts::default()) {
        Ok(d2) if !d2.quirk => d2,
        Ok(_) => fail!("C05 output-unspecified", "output has a quirky name: {}", hex_abbrev(&out)),
        Err(r) => fail!(format!("C05 output-not-well-formed {}", r.clause), "reference rejects the output ({:?}); input={} output={} decoded-input={}", r, hex_abbrev(bytes), hex_abbrev(&out), d.msg.show()),
    };
    match lib_parse(&out) {
        Ok(Ok(_)) => {}
        Ok(Err(e)) => fail!("C05 output-rejected-by-parser", "{:?}; input={} output={}", e, hex_abbrev(bytes), hex_abbrev(&out)),
        Err(pm) => fail!(format!("C05 output-parse-panic {}", panic_sig(&pm)), "{}", pm),
    }
    ensure!(out[..12] == bytes[..12], "C05 header-changed", "input={} output={}", hex_abbrev(bytes), hex_abbrev(&out));
    ensure!(d2.msg == d.msg, "C05 message-changed", "{}; input={} output={}", d.msg.diff(&d2.msg, false), hex_abbrev(bytes), hex_abbrev(&out));
    ensure!(!d2.has_pointer(), "C05 output-has-pointer", "input={} output={}", hex_abbrev(bytes), hex_abbrev(&out));
    // the canonical pointer-free form is unique: it must equal the model's plain encoding
    ensure!(out == d.msg.to_wire_plain(), "C05 output-not-canonical", "input={} output={}", hex_abbrev(bytes), hex_abbrev(&out));
    match catch(|| Compress::uncompress(&out).map_err(|e| e.to_string())) {
        Ok(Ok(o2)) => ensure!(o2 == out, "C05 not-idempotent", "second decompression changed the packet: {} -> {}", hex_abbrev(&out), hex_abbrev(&o2)),
        Ok(Err(e)) => fail!("C05 second-uncompress-fails", "{:?}", e),
        Err(pm) => fail!(format!("C05 second-uncompress-panic {}", panic_sig(&pm)), "{}", pm),
    }
    // boundary offsets
    let bi = d.boundaries();
    let bo = d2.boundaries();
    ensure!(bi.len() == bo.len(), "HARNESS: boundary count", "{} vs {}", bi.len(), bo.len());
    let idxs: Vec<usize> = if bi.len() <= 10 {
        (0..bi.len()).collect()
    } else {
        let mut v = vec![0, 1, bi.len() - 2, bi.len() - 1];
        for _ in 0..6 {
            v.push(src.below(bi.len()));
        }
        v
    };
    for i in idxs {
        let r = catch(|| Compress::uncompress_with_previous_offset(bytes, bi[i]).map_err(|e| e.to_string()));
        match r {
            Err(pm) => fail!(format!("C05 offset-translation-panic {}", panic_sig(&pm)), "boundary #{} = {}: {}; packet={}", i, bi[i], pm, hex_abbrev(bytes)),
            Ok(Err(e)) => fail!("C05 offset-translation-fails", "boundary {}: {:?}", bi[i], e),
            Ok(Ok((o, off))) => {
                ensure!(o == out, "C05 offset-translation-output-differs", "boundary {}", bi[i]);
                ensure!(off == bo[i], "C05 offset-translation-wrong", "boundary #{}: input offset {} -> {} but the same boundary is at {} in the output; packet={}", i, bi[i], off, bo[i], hex_abbrev(bytes));
            }
        }
        st.class("boundary-query");
    }
    // decompression in place through an iterator: on the freshly parsed object, and again after the
    // object was re-compressed by an identity rename (the object must notice that its bytes hold pointers again)
    if src.chance(40) && !d.msg.qd.is_empty() {
        let twice = src.chance(128);
        let b = bytes.to_vec();
        let qn = d.msg.qd[0].name.clone();
        let r = catch(move || -> Result<(Vec<u8>, Option<(Vec<u8>, Vec<u8>)>), String> {
            let mut pp = DNSSector::new(b).and_then(|x| x.parse()).map_err(|e| e.to_string())?;
            {
                let mut q = pp.into_iter_question().ok_or("no question")?;
                dnssector::DNSIterable::uncompress(&mut q).map_err(|e| e.to_string())?;
            }
            let first = pp.packet().to_vec();
            if !twice {
                return Ok((first, None));
            }
            let rn = if qn.is_root() { Name::from_dotted("absent.invalid").to_wire() } else { qn.to_wire() };
            pp.rename_with_raw_names(&rn, &rn, true).map_err(|e| format!("identity rename: {}", e))?;
            let mid = pp.packet().to_vec();
            {
                let mut q = pp.into_iter_question().ok_or("no question")?;
                dnssector::DNSIterable::uncompress(&mut q).map_err(|e| e.to_string())?;
            }
            Ok((first, Some((mid, pp.packet().to_vec()))))
        });
        match r {
            Err(pm) => fail!(format!("C05 in-place-decompression-panic {}", panic_sig(&pm)), "{}; packet={}", pm, hex_abbrev(bytes)),
            Ok(Err(e)) => fail!("C05 in-place-decompression-fails", "{}; packet={}", e, hex_abbrev(bytes)),
            Ok(Ok((first, second))) => {
                ensure!(first == out, "C05 in-place-decompression-differs", "iterator uncompress() left {} but Compress::uncompress gives {}; input={}", hex_abbrev(&first), hex_abbrev(&out), hex_abbrev(bytes));
                st.class("in-place:fresh-object");
                if let Some((mid, last)) = second {
                    // what the pure function makes of the re-compressed bytes
                    let want = match catch(|| Compress::uncompress(&mid).map_err(|e| e.to_string())) {
                        Ok(Ok(w)) => w,
                        other => fail!("C05 uncompress-of-renamed-packet-fails", "{:?}; packet={}", other, hex_abbrev(&mid)),
                    };
                    ensure!(
                        last == want,
                        "C05 in-place-decompression-after-recompression-differs",
                        "object decompressed, renamed (identity: re-compresses) and decompressed again holds {} but Compress::uncompress of its bytes before that gives {}; input={}",
                        hex_abbrev(&last),
                        hex_abbrev(&want),
                        hex_abbrev(bytes)
                    );
                    let d3 = refdec::decode(&last, refdec::Opts::default());
                    ensure!(matches!(&d3, Ok(x) if !x.has_pointer()), "C05 in-place-output-has-pointer", "{}", hex_abbrev(&last));
                    if mid != first {
                        st.class("in-place:after-recompression(with pointers)");
                    }
                }
            }
        }
    }
    Ok(())
}

fn c05_case(data: &[u8], st: &mut Stats) -> PResult {
    let mut src = Src::new(data);
    crate::history::case(&mut src, st, 6, c05_body)
}

fn c05_body(src: &mut Src, st: &mut Stats) -> PResult {
    let mut src = src.fork();
    let (bytes, d, tag) = match gen_accepted(&mut src, &GenOpts::default()) {
        Some(x) => x,
        None => {
            st.class("skipped:not-accepted-by-reference");
            return Ok(());
        }
    };
    if !matches!(lib_parse(&bytes), Ok(Ok(_))) {
        st.class("skipped:parser-rejects");
        return Ok(());
    }
    st.class(&format!("origin:{}", tag));
    c05_oracle(&bytes, &d, &mut src, st)?;
    st.class(&format!("opt:{:?}", gens::opt_pos(&d.msg)));
    if d.has_pointer() {
        st.class("with-pointer");
        st.nontrivial(&bytes);
        for r in d.msg.all_records() {
            match (&r.rdata, r.rtype) {
                (Rdata::Name1(_), _) => st.class("rdata:name1"),
                (Rdata::Mx(..), _) => st.class("rdata:mx"),
                (Rdata::Soa(..), _) => st.class("rdata:soa"),
                (Rdata::Dname(_), _) => st.class("rdata:dname"),
                _ => {}
            }
        }
        let cls = format!("depth:{}", d.max_ptr_depth().min(4));
        if st.wants_sample(&cls) {
            st.sample(&cls, json!({"packet": hex_abbrev(&bytes), "decoded": d.msg.show().chars().take(300).collect::<String>(), "boundaries": d.boundaries().len()}));
        }
    } else {
        st.class("pointer-free-input");
    }
    Ok(())
}

pub fn replay_c05(data: &[u8]) -> PResult {
    c05_case(data, &mut Stats::default())
}

pub fn check_c05(ctx: &Ctx, known: &KnownFindings) -> Report {
    let mut rep = Report::new("C05");
    let ks = known_sigs(known, "C05");
    rep.rule = "accepted packets (as C03) x every record-boundary offset (all when <= 10 boundaries, else first/last two + 6 drawn). Oracle: uncompress Ok; output accepted by parser and reference; first 12 bytes identical; decoded message identical (names byte-exact, rdata of NS/CNAME/PTR/MX/SOA expanded, everything else verbatim); output equals the unique canonical pointer-free encoding of the decoded message; no pointer in any understood name; second decompression is the identity; uncompress_with_previous_offset(x, b) returns the same bytes and the offset of the same boundary; in-place decompression through an iterator leaves the same bytes, also on an object that was decompressed, re-compressed by an identity rename and decompressed again. About 1 case in 40 is a history case (fresh thread; 1-3 failing library calls on damaged copies of the packet first). Non-trivial: input holds >= 1 pointer; distinct = hash of packet.".into();
    rep.assumptions = vec!["uncompress_with_previous_offset is called with record-boundary offsets only (the property's quantifier)".into()];
    for (name, b) in crate::props::read_props::c03_regressions() {
        let r = catch(|| -> PResult {
            let d = refdec::decode_strict(&b).ok_or_else(|| Failure::new("HARNESS: regression not accepted", name))?;
            let mut st = Stats::default();
            c05_oracle(&b, &d, &mut Src::new(&[]), &mut st)
        });
        rep.direct(name, r, &ks);
    }
    let prop = (1500usize, c05_case);
    let r = drive(&prop, ctx.cases(500_000, 6_000_000), ctx, 5, &ks);
    rep.absorb(r);
    rep.require(&["with-pointer", "pointer-free-input", "rdata:name1", "rdata:mx", "rdata:soa", "rdata:dname", "opt:First", "opt:Middle", "opt:Last", "opt:Only", "boundary-query", "in-place:fresh-object", "in-place:after-recompression(with pointers)"]);
    rep
}

// ---------------------------------------------------------------------------
// C06
// ---------------------------------------------------------------------------

/// Messages aimed at the quantifier of C06.
pub fn gen_compress_message(src: &mut Src) -> (Message, &'static str) {
    let fam = src.weighted(&[6, 3, 3, 2, 2, 2, 2]);
    if fam == 0 {
        return (gens::gen_message(src, &GenOpts::default()), "generic");
    }
    if fam == 6 {
        // the suffix table has wrapped (32..50 names of one length seen) when the output passes offset
        // 16384; behind it new names of the very same length appear, each several times: a name that
        // cannot be stored (no pointer reaches it) must not disturb the entry whose slot it would take
        let k1 = src.range(30, 50);
        let k2 = src.range(1, 6);
        let two = src.chance(100);
        let nm = |c: u8, i: usize| -> Name {
            let l = format!("{}{:02}", c as char, i).into_bytes();
            if two {
                Name(vec![l, b"zz".to_vec()])
            } else {
                Name(vec![l])
            }
        };
        let a_rec = |o: Name, i: usize| Record { owner: o, rtype: T_A, class: 1, ttl: i as u32, rdata: Rdata::A([7, 7, 7, i as u8]) };
        let mut m = Message { id: src.u16(), flags: 0x8180, qd: vec![Question { name: nm(b'a', 0), qtype: 1, qclass: 1 }], ..Default::default() };
        for i in 1..=k1 {
            m.an.push(a_rec(nm(b'a', i), i));
        }
        let before = 12 + m.qd[0].name.wire_len() + 4 + m.an.iter().map(|r| r.to_wire().len()).sum::<usize>();
        // root-owned TXT fillers up to (about) offset 16384; sometimes exactly
        let mut need = 16384usize.saturating_sub(before) + if src.chance(128) { 0 } else { src.range(0, 600) };
        while need > 0 {
            let d = need.saturating_sub(11).min(4000);
            m.an.push(Record { owner: Name::root(), rtype: T_TXT, class: 1, ttl: 2, rdata: Rdata::Opaque(vec![0x41; d]) });
            need = need.saturating_sub(d + 11);
        }
        for j in 0..k2 {
            let copies = src.range(2, 3);
            for c in 0..copies {
                let r = if c == 1 && src.chance(100) {
                    Record { owner: nm(b'a', 1 + src.below(k1)), rtype: T_NS, class: 1, ttl: 9, rdata: Rdata::Name1(nm(b'b', j)) }
                } else {
                    a_rec(nm(b'b', j), 100 + j)
                };
                if src.chance(200) {
                    m.an.push(r);
                } else {
                    m.ar.push(r);
                }
            }
        }
        // and the old names once more
        for _ in 0..src.range(0, 4) {
            let i = 1 + src.below(k1);
            m.ar.push(a_rec(nm(b'a', i), 200));
        }
        return (m, "table-wrapped-then-beyond-16383");
    }
    let qr = true;
    let mut m = Message { id: src.u16(), flags: 0x8180, ..Default::default() };
    let mk = |owner: Name, src: &mut Src, others: &[Name]| -> Record {
        match src.below(5) {
            0 => Record { owner, rtype: T_A, class: 1, ttl: 60, rdata: Rdata::A([9, 9, 9, 9]) },
            1 => Record { owner, rtype: T_NS, class: 1, ttl: 60, rdata: Rdata::Name1(src.pick(others).clone()) },
            2 => Record { owner, rtype: T_MX, class: 1, ttl: 60, rdata: Rdata::Mx(10, src.pick(others).clone()) },
            3 => Record { owner, rtype: T_SOA, class: 1, ttl: 60, rdata: Rdata::Soa(src.pick(others).clone(), src.pick(others).clone(), vec![1; 20]) },
            _ => Record { owner, rtype: T_CNAME, class: 1, ttl: 60, rdata: Rdata::Name1(src.pick(others).clone()) },
        }
    };
    let _ = qr;
    let tag;
    let mut names: Vec<Name> = vec![];
    match fam {
        1 => {
            // nested suffix chain, depth up to 40: each name = one new label + previous name
            tag = "nested";
            let depth = src.range(2, 40);
            let lablen = src.range(1, 4);
            let mut cur = Name(vec![b"zz".to_vec()]);
            names.push(cur.clone());
            for i in 0..depth {
                let mut l = format!("{}", i % 10).into_bytes();
                while l.len() < lablen {
                    l.push(b'n');
                }
                let mut ls = vec![l];
                ls.extend(cur.0.clone());
                if Name(ls.clone()).wire_len() > 255 {
                    break;
                }
                cur = Name(ls);
                names.push(cur.clone());
            }
        }
        2 => {
            // many distinct suffixes (dictionary wrap-around), then repeats
            tag = "many-suffixes";
            let n = src.range(20, 200);
            for i in 0..n {
                names.push(Name(vec![format!("h{}", i).into_bytes(), b"tld".to_vec()]));
            }
        }
        3 => {
            // suffix lengths around the 127 limit
            tag = "long-suffix";
            for total in [126usize, 127, 128, 129, 200] {
                let n = gens::name_of_wire_len(src, total);
                names.push(n.clone());
                let mut ls = vec![b"p".to_vec()];
                ls.extend(n.0);
                names.push(gens::fit(Name(ls)));
            }
        }
        4 => {
            // mixed-case duplicates
            tag = "mixed-case";
            for s in ["www.example.com", "WWW.EXAMPLE.COM", "Www.Example.Com", "mail.example.com", "MAIL.example.COM", "a.b.c.d.e.example.com", "A.B.C.D.E.EXAMPLE.COM"] {
                names.push(Name::from_dotted(s));
            }
        }
        _ => {
            // names beyond offset 16383 (filler first)
            tag = "beyond-16383";
            // names[0..3] may appear before the filler; the others are first seen beyond it, so that fresh
            // dictionary entries are created around offset 16384 and then re-used
            for s in ["far.example.org", "x.far.example.org", "example.org", "late.test", "a.late.test", "other.invalid", "b.a.late.test"] {
                names.push(Name::from_dotted(s));
            }
        }
    }
    let qn = if fam == 5 {
        names[src.below(3)].clone()
    } else if src.chance(128) {
        names[0].clone()
    } else {
        src.pick(&names).clone()
    };
    m.qd.push(Question { name: qn, qtype: 1, qclass: 1 });
    if fam == 5 {
        names.drain(0..3);
        // half of the time aim at the pointer-reach boundary itself: names starting at 16383/16384/16385
        let size = if src.chance(128) { src.range(16_280, 16_400) } else { *src.pick(&[16400usize, 17000, 30000]) };
        let fo = m.qd[0].name.clone();
        m.an.push(Record { owner: fo, rtype: T_TXT, class: 1, ttl: 1, rdata: Rdata::Opaque(vec![0xc0; size]) });
    }
    // in-order pass (so that nesting builds up), then random repeats
    let in_order = src.chance(200);
    let nest_one_section = src.chance(200);
    let total = if in_order { names.len() } else { src.range(1, names.len().min(60)) };
    for i in 0..total {
        let owner = if in_order { names[i].clone() } else { src.pick(&names).clone() };
        // RRsets: one to three consecutive records with the same owner
        let copies = if src.chance(70) { src.range(2, 3) } else { 1 };
        // the nesting family keeps its records in wire order (one section) most of the time, so that the
        // chain really builds up to (and beyond) the limit of 16
        let sec = if fam == 1 && nest_one_section { 0 } else { src.below(3) };
        for _ in 0..copies {
            let r = mk(owner.clone(), src, &names);
            match sec {
                0 => m.an.push(r),
                1 => m.ns.push(r),
                _ => m.ar.push(r),
            }
        }
    }
    let repeats = src.range(0, 12);
    for _ in 0..repeats {
        let owner = src.pick(&names).clone();
        let r = mk(owner, src, &names);
        m.ar.push(r);
    }
    if src.chance(128) {
        let at = src.below(m.ar.len() + 1);
        m.ar.insert(at, gens::gen_opt(src));
    }
    (m, tag)
}

pub fn c06_oracle(u: &[u8], d: &Decoded, st: &mut Stats) -> PResult {
    let out = match catch(|| Compress::compress(u).map_err(|e| e.to_string())) {
        Err(pm) => fail!(format!("C06 compress-panic {}", panic_sig(&pm)), "panic={} input={} decoded={}", pm, hex_abbrev(u), d.msg.show().chars().take(600).collect::<String>()),
        Ok(Err(e)) => fail!("C06 compress-fails", "error {:?} on accepted pointer-free packet {}", e, hex_abbrev(u)),
        Ok(Ok(o)) => o,
    };
    let short = |m: &Message| m.show().chars().take(700).collect::<String>();
    let d2 = match refdec::decode(&out, refdec::Opts::default()) {
        Ok(d2) if !d2.quirk => d2,
        Ok(_) => fail!("C06 output-unspecified", "output has a quirky name: {}", hex_abbrev(&out)),
        Err(r) => fail!(format!("C06 output-not-well-formed {}", r.clause), "reference rejects the output ({:?}); input={} output={} decoded-input={}", r, hex_abbrev(u), hex_abbrev(&out), short(&d.msg)),
    };
    match lib_parse(&out) {
        Ok(Ok(_)) => {}
        Ok(Err(e)) => fail!("C06 output-rejected-by-parser", "{:?}; input={} output={}", e, hex_abbrev(u), hex_abbrev(&out)),
        Err(pm) => fail!(format!("C06 output-parse-panic {}", panic_sig(&pm)), "{}", pm),
    }
    ensure!(out.len() <= u.len(), "C06 output-longer-than-input", "{} > {}; input={} output={}", out.len(), u.len(), hex_abbrev(u), hex_abbrev(&out));
    ensure!(out[..12] == u[..12], "C06 header-changed", "input={} output={}", hex_abbrev(u), hex_abbrev(&out));
    ensure!(d2.msg.eq_ci(&d.msg), "C06 message-changed", "{}; input={} output={}", d.msg.diff(&d2.msg, true), hex_abbrev(u), hex_abbrev(&out));
    ensure!(d2.msg.qd == d.msg.qd, "C06 question-name-case-changed", "{:?} vs {:?}", d.msg.qd, d2.msg.qd);
    // OPT record incl. options and non-name data are covered by eq_ci (only names are case-folded)
    // pointer audit: every pointer designates, in the output, the suffix it stands for
    let nin = d.all_name_infos();
    let nout = d2.all_name_infos();
    ensure!(nin.len() == nout.len(), "HARNESS: name occurrence count", "{} vs {}", nin.len(), nout.len());
    let mut pointers = 0usize;
    for (a, b) in nin.iter().zip(nout.iter()) {
        if let Some(&(pos, target)) = b.ptrs.first() {
            pointers += 1;
            ensure!(target < pos, "C06 pointer-not-backward", "pointer at {} -> {}", pos, target);
            // suffix designated: decode from target independently
            let designated = match refdec::walk_name(&out, target, true) {
                Ok(n) => n.name,
                Err(r) => fail!("C06 pointer-target-undecodable", "pointer at {} -> {}: {:?}", pos, target, r),
            };
            let k = designated.0.len();
            ensure!(k <= a.name.0.len(), "C06 pointer-designates-wrong-suffix", "pointer at {} designates {} for input name {}", pos, designated.show(), a.name.show());
            let want = Name(a.name.0[a.name.0.len() - k..].to_vec());
            ensure!(designated.eq_ci(&want), "C06 pointer-designates-wrong-suffix", "pointer at {} -> {} designates {} but stands for {} (input name {}); output={}", pos, target, designated.show(), want.show(), a.name.show(), hex_abbrev(&out));
        }
    }
    // round trip
    match catch(|| Compress::uncompress(&out).map_err(|e| e.to_string())) {
        Ok(Ok(back)) => match refdec::decode_strict(&back) {
            Some(d3) => ensure!(d3.msg.eq_ci(&d.msg), "C06 roundtrip-differs", "{}", d.msg.diff(&d3.msg, true)),
            None => fail!("C06 roundtrip-not-well-formed", "uncompress(compress(u)) rejected by reference; u={}", hex_abbrev(u)),
        },
        Ok(Err(e)) => fail!("C06 roundtrip-uncompress-fails", "{:?}; u={} compressed={}", e, hex_abbrev(u), hex_abbrev(&out)),
        Err(pm) => fail!(format!("C06 roundtrip-uncompress-panic {}", panic_sig(&pm)), "{}; u={}", pm, hex_abbrev(u)),
    }
    let depth = d2.max_ptr_depth();
    st.class(&format!("chain-depth:{}", if depth > 16 { "17+".into() } else if depth >= 9 { "9-16".into() } else if depth >= 3 { "3-8".to_string() } else { depth.to_string() }));
    if pointers >= 2 {
        st.class("pointer-after-shortening");
    }
    if pointers >= 1 {
        st.class("output-has-pointer");
    }
    st.max("max_chain_depth", depth as f64);
    st.max("max_saving_bytes", (u.len() - out.len()) as f64);
    Ok(())
}

fn c06_case(data: &[u8], st: &mut Stats) -> PResult {
    let mut src = Src::new(data);
    crate::history::case(&mut src, st, 6, c06_body)
}

fn c06_body(src: &mut Src, st: &mut Stats) -> PResult {
    let mut src = src.fork();
    let (m, tag) = gen_compress_message(&mut src);
    // either the all-literal encoding or the library-independent plain form of a compressed one
    let u = enc::encode(&m, Layout::Literal).bytes;
    let d = match refdec::decode_strict(&u) {
        Some(d) => d,
        None => fail!("HARNESS: literal encoding not accepted by reference", "{}", hex_abbrev(&u)),
    };
    ensure!(!d.has_pointer(), "HARNESS: literal encoding has pointer", "{}", hex_abbrev(&u));
    if !matches!(lib_parse(&u), Ok(Ok(_))) {
        st.class("skipped:parser-rejects");
        return Ok(());
    }
    st.class(&format!("family:{}", tag));
    st.class(&format!("opt:{:?}", gens::opt_pos(&m)));
    let before = st.count("pointer-after-shortening");
    c06_oracle(&u, &d, st)?;
    let distinct_suffixes = {
        let mut s = std::collections::BTreeSet::new();
        for n in d.all_name_infos() {
            for i in 0..n.name.0.len() {
                s.insert(Name(n.name.0[i..].to_vec()).lower());
            }
        }
        s.len()
    };
    if distinct_suffixes > 32 {
        st.class("distinct-suffixes>32");
    }
    if d.all_name_infos().iter().any(|n| n.name.wire_len() > 127) {
        st.class("suffix>127");
    }
    if d.all_name_infos().iter().any(|n| n.start > 16383) {
        st.class("name-beyond-16383");
    }
    if let Ok(Ok(out)) = catch(|| Compress::compress(&u).map_err(|e| e.to_string())) {
        if let Some(d2) = refdec::decode_strict(&out) {
            if d2.all_name_infos().iter().any(|n| n.start == 16384) {
                st.class("output-name-at-16384");
            }
            if d2.all_name_infos().iter().any(|n| n.start == 16383) {
                st.class("output-name-at-16383");
            }
        }
    }
    if st.frozen || st.count("pointer-after-shortening") > before {
        st.nontrivial(&u);
        let cls = format!("family:{}", tag);
        if st.wants_sample(&cls) {
            st.sample(&cls, json!({"input_len": u.len(), "input": hex_abbrev(&u), "decoded": m.show().chars().take(300).collect::<String>()}));
        }
    }
    Ok(())
}

pub fn replay_c06(data: &[u8]) -> PResult {
    c06_case(data, &mut Stats::default())
}

fn a_rec(owner: &str) -> Record {
    Record { owner: Name::from_dotted(owner), rtype: T_A, class: 1, ttl: 5, rdata: Rdata::A([1, 2, 3, 4]) }
}

pub fn c06_regressions() -> Vec<(&'static str, Message)> {
    let q = |s: &str| Question { name: Name::from_dotted(s), qtype: 1, qclass: 1 };
    let mut v = vec![];
    // D8: dictionary keyed on input offsets: pointer after an earlier shortening
    v.push((
        "pointer-after-shortening",
        Message { id: 1, flags: 0x8180, qd: vec![q("example.com")], an: vec![a_rec("foo.example.com"), a_rec("bar.org"), a_rec("bar.org")], ..Default::default() },
    ));
    // D9: OPT not first in AR
    v.push(("opt-last", Message { id: 1, flags: 0x8180, qd: vec![q("example.com")], ar: vec![a_rec("a.example.com"), opt_rec()], ..Default::default() }));
    v.push(("opt-middle", Message { id: 1, flags: 0x8180, qd: vec![q("example.com")], ar: vec![a_rec("a.example.com"), opt_rec(), a_rec("b.example.com")], ..Default::default() }));
    v.push(("opt-first", Message { id: 1, flags: 0x8180, qd: vec![q("example.com")], ar: vec![opt_rec(), a_rec("b.example.com")], ..Default::default() }));
    // D19: nesting deeper than 16
    let mut m = Message { id: 1, flags: 0x8180, qd: vec![q("zz")], ..Default::default() };
    let mut cur = Name::from_dotted("zz");
    for i in 0..24 {
        let mut ls = vec![format!("n{}", i).into_bytes()];
        ls.extend(cur.0.clone());
        cur = Name(ls);
        m.an.push(Record { owner: cur.clone(), rtype: T_A, class: 1, ttl: 5, rdata: Rdata::A([1, 2, 3, 4]) });
    }
    v.push(("nesting-24", m));
    v
}

pub fn check_c06(ctx: &Ctx, known: &KnownFindings) -> Report {
    let mut rep = Report::new("C06");
    let ks = known_sigs(known, "C06");
    rep.rule = "accepted pointer-free packets: all-literal encodings of generated messages (generic + families: suffix nesting up to depth 40, 20-200 distinct suffixes, suffixes of 126..129 bytes, mixed-case duplicates, names beyond offset 16383, 30-50 names of one length before offset 16384 and new names of that length behind it, OPT anywhere, every name-bearing rdata type). Oracle: compress Ok; output accepted (parser and reference); len(out) <= len(in); header equal; decoded message equal up to name case with the question name byte-identical; every emitted pointer is backward and the name decoded from its target equals (case-insensitively) the suffix it replaces; decode(uncompress(out)) equals the input up to case. Non-trivial: output holds >= 2 pointers (a pointer emitted after an earlier name was shortened); distinct = hash of input.".into();
    rep.assumptions = vec!["domain = packets accepted by both parser and reference, containing no pointer".into()];
    for (name, m) in c06_regressions() {
        let r = catch(|| -> PResult {
            let u = enc::encode(&m, Layout::Literal).bytes;
            let d = refdec::decode_strict(&u).ok_or_else(|| Failure::new("HARNESS: regression not accepted", name))?;
            c06_oracle(&u, &d, &mut Stats::default())
        });
        rep.direct(name, r, &ks);
    }
    let prop = (2500usize, c06_case);
    let r = drive(&prop, ctx.cases(300_000, 4_000_000), ctx, 6, &ks);
    rep.absorb(r);
    rep.require(&[
        "pointer-after-shortening",
        "family:generic",
        "family:nested",
        "family:many-suffixes",
        "family:long-suffix",
        "family:mixed-case",
        "family:beyond-16383",
        "family:table-wrapped-then-beyond-16383",
        "distinct-suffixes>32",
        "suffix>127",
        "name-beyond-16383",
        "output-name-at-16384",
        "output-name-at-16383",
        "opt:First",
        "opt:Middle",
        "opt:Last",
        "chain-depth:9-16",
    ]);
    rep
}

// ---------------------------------------------------------------------------
// C07
// ---------------------------------------------------------------------------

/// Specification of renaming on one name.
pub fn model_rename_name(n: &Name, target: &Name, source: &Name, suffix: bool) -> Name {
    let (nl, sl) = (n.0.len(), source.0.len());
    if sl == 0 || nl < sl || (!suffix && nl != sl) {
        return n.clone();
    }
    let tail = Name(n.0[nl - sl..].to_vec());
    if !tail.eq_ci(source) {
        return n.clone();
    }
    let mut ls = n.0[..nl - sl].to_vec();
    ls.extend(target.0.clone());
    Name(ls)
}

/// Apply the renaming specification to a whole message. Err = some rewritten name exceeds 255 bytes.
pub fn model_rename(m: &Message, target: &Name, source: &Name, suffix: bool) -> Result<(Message, usize), ()> {
    let mut out = m.clone();
    let mut rewritten = 0;
    let mut too_long = false;
    let mut apply = |n: &mut Name| {
        let (nl, sl) = (n.0.len(), source.0.len());
        let matched = sl > 0 && nl >= sl && (suffix || nl == sl) && Name(n.0[nl - sl..].to_vec()).eq_ci(source);
        if matched {
            rewritten += 1;
        }
        let new = model_rename_name(n, target, source, suffix);
        if new.wire_len() > 255 {
            too_long = true;
        }
        *n = new;
    };
    for q in out.qd.iter_mut() {
        apply(&mut q.name);
    }
    for s in 1..=3 {
        for r in out.section_mut(s).iter_mut() {
            if r.is_opt() {
                continue;
            }
            for n in r.names_mut() {
                apply(n);
            }
        }
    }
    if too_long {
        Err(())
    } else {
        Ok((out, rewritten))
    }
}

pub struct RenameArgs {
    pub target: Name,
    pub source: Name,
    pub suffix: bool,
    pub kind: &'static str,
}

pub fn gen_rename_args(src: &mut Src, m: &Message) -> RenameArgs {
    // all names the renamer looks at
    let mut names: Vec<Name> = m.qd.iter().map(|q| q.name.clone()).collect();
    for r in m.all_records() {
        if r.is_opt() {
            continue;
        }
        let mut r2 = r.clone();
        for n in r2.names_mut() {
            names.push(n.clone());
        }
    }
    names.retain(|n| !n.is_root());
    let mut ctx = NameCtx::default();
    let suffix = src.chance(160);
    let (source, kind): (Name, &'static str) = if names.is_empty() {
        (gens::gen_name(src, &mut ctx), "absent")
    } else {
        let base = src.pick(&names).clone();
        let i = src.below(base.0.len());
        let present = Name(base.0[i..].to_vec());
        match src.weighted(&[8, 3, 2, 2, 2, 2, 2, 2]) {
            0 => (present, "present"),
            7 => {
                // a literal `*` label in front of a name of the packet (nothing special about it for the renamer)
                let mut ls = vec![b"*".to_vec()];
                ls.extend(present.0.iter().skip(if present.0.len() > 1 { 1 } else { 0 }).cloned());
                (gens::fit(Name(ls)), "asterisk-label")
            }
            6 => match gens::bit5_twin(src, &present) {
                // near miss: a non-letter byte differs in bit 5 only
                Some(t) => (t, "near-miss-bit5-of-non-letter"),
                None => (present, "present"),
            },
            1 => {
                // case flipped
                (Name(present.0.iter().map(|l| l.iter().map(|&c| if c.is_ascii_alphabetic() { c ^ 0x20 } else { c }).collect()).collect()), "present-case-flipped")
            }
            2 => {
                // near miss: one leading byte of the first label removed (partial-label suffix)
                let mut p = present.clone();
                if p.0[0].len() > 1 {
                    p.0[0].remove(0);
                    (p, "near-miss-partial-label")
                } else {
                    (p, "present")
                }
            }
            3 => {
                // near miss: one byte changed
                let mut p = present.clone();
                let li = src.below(p.0.len());
                let bi = src.below(p.0[li].len());
                p.0[li][bi] = if p.0[li][bi] == b'q' { b'r' } else { b'q' };
                (p, "near-miss-byte-changed")
            }
            4 => {
                // one extra leading label
                let mut ls = vec![b"extra".to_vec()];
                ls.extend(present.0.clone());
                (gens::fit(Name(ls)), "near-miss-extra-label")
            }
            _ => (gens::gen_name(src, &mut ctx), "absent"),
        }
    };
    let source = if source.is_root() { Name::from_dotted("absent.invalid") } else { source };
    if kind == "asterisk-label" && src.chance(160) {
        // target with a `*` label as well
        let mut ls = vec![b"*".to_vec()];
        ls.extend(Name::from_dotted(*src.pick(&["example.net", "t.example", "org"])).0);
        return RenameArgs { target: Name(ls), source, suffix: src.chance(100), kind };
    }
    let target = match src.weighted(&[6, 2, 2, 2]) {
        0 => {
            let t = gens::gen_name(src, &mut ctx);
            if t.is_root() {
                Name::from_dotted("t.example")
            } else {
                t
            }
        }
        1 => source.clone(),
        2 => {
            let wl = *src.pick(&[255usize, 200, 128, 64]);
            gens::name_of_wire_len(src, wl)
        }
        _ => Name(vec![b"x".to_vec()]),
    };
    RenameArgs { target, source, suffix, kind }
}

pub fn c07_oracle(bytes: &[u8], d: &Decoded, a: &RenameArgs, packet_level: bool, st: &mut Stats) -> PResult {
    let tw = a.target.to_wire();
    let sw = a.source.to_wire();
    let expected = model_rename(&d.msg, &a.target, &a.source, a.suffix);
    let ctxs = || format!("target={} source={} suffix={} packet={} decoded={}", a.target.show(), a.source.show(), a.suffix, hex_abbrev(bytes), d.msg.show().chars().take(500).collect::<String>());
    let mut pp = match lib_parse(bytes) {
        Ok(Ok(p)) => p,
        _ => return Ok(()),
    };
    // the wrapper is also used on objects that were decompressed in place by an earlier edit
    let prehistory = packet_level && d.msg.qd.first().map(|q| q.name.wire_len() % 2 == 0).unwrap_or(false);
    if prehistory {
        let ok = catch(|| {
            let mut q = match pp.into_iter_question() {
                Some(q) => q,
                None => return false,
            };
            dnssector::DNSIterable::uncompress(&mut q).is_ok()
        });
        if ok != Ok(true) {
            fail!("C07 prehistory-uncompress-fails", "{:?}; {}", ok, ctxs());
        }
        st.class("packet-level-after-in-place-decompression");
    }
    let (res, after): (Result<Vec<u8>, String>, Option<dnssector::ParsedPacket>) = if packet_level {
        match catch(move || {
            let r = pp.rename_with_raw_names(&tw, &sw, a.suffix).map_err(|e| e.to_string());
            (r, pp)
        }) {
            Err(pm) => fail!(format!("C07 rename-panic {}", panic_sig(&pm)), "(packet-level) panic={} {}", pm, ctxs()),
            Ok((Ok(()), pp)) => match catch(|| pp.packet.clone()) {
                Ok(Some(b)) => (Ok(b), Some(pp)),
                _ => fail!("C07 object-unusable-after-rename", "packet-level rename returned Ok but the object holds no packet; {}", ctxs()),
            },
            Ok((Err(e), pp)) => (Err(e), Some(pp)),
        }
    } else {
        match catch(|| Renamer::rename_with_raw_names(&mut pp, &tw, &sw, a.suffix).map_err(|e| e.to_string())) {
            Err(pm) => fail!(format!("C07 rename-panic {}", panic_sig(&pm)), "panic={} {}", pm, ctxs()),
            Ok(r) => (r, None),
        }
    };
    match (&expected, &res) {
        (Err(()), Ok(out)) => fail!("C07 overflow-not-reported", "a rewritten name exceeds 255 bytes but rename returned a packet ({} bytes); {}", out.len(), ctxs()),
        (Err(()), Err(_)) => {
            st.class("overflow-rejected");
            if let Some(mut pp) = after {
                // object unchanged and usable
                let now = catch(|| pp.packet.clone()).ok().flatten();
                ensure!(now.as_deref() == Some(bytes) || now.as_deref().and_then(refdec::decode_strict).map(|x| x.msg == d.msg).unwrap_or(false), "C07 failed-rename-changed-object", "{}", ctxs());
                let b2 = now.unwrap();
                let d2 = refdec::decode_strict(&b2).unwrap();
                match catch(|| -> PResult {
                    check_walks(&mut pp, &d2, &b2, 0, "C07")?;
                    check_summary(&mut pp, &d2, 2, "C07", false)
                }) {
                    Err(pm) => fail!(format!("C07 object-unusable-after-failed-rename {}", panic_sig(&pm)), "{}; {}", pm, ctxs()),
                    Ok(r) => r?,
                }
                // second time round: the same object is renamed again, now with a target that fits
                let t2 = Name::from_dotted("t2.example");
                let t2w = t2.to_wire();
                let sw2 = a.source.to_wire();
                let want2 = model_rename(&d2.msg, &t2, &a.source, a.suffix);
                let r2 = catch(move || {
                    let r = pp.rename_with_raw_names(&t2w, &sw2, a.suffix).map_err(|e| e.to_string());
                    (r, pp.packet.clone())
                });
                match (r2, want2) {
                    (Err(pm), _) => fail!(format!("C07 rename-after-failed-rename-panic {}", panic_sig(&pm)), "{}; {}", pm, ctxs()),
                    (Ok((Ok(()), Some(out2))), Ok((w, _))) => {
                        let d3 = match refdec::decode_strict(&out2) {
                            Some(x) => x,
                            None => fail!("C07 rename-after-failed-rename-not-well-formed", "output={} {}", hex_abbrev(&out2), ctxs()),
                        };
                        ensure!(d3.msg.eq_ci(&w), "C07 rename-after-failed-rename-wrong-result", "after a rename that failed for length, renaming the same object to t2.example: {}; output={} {}", w.diff(&d3.msg, true), hex_abbrev(&out2), ctxs());
                        st.class("rename-after-failed-rename");
                    }
                    (Ok((Err(_), _)), Err(())) => st.class("rename-after-failed-rename"),
                    (Ok((Ok(()), _)), Err(())) => fail!("C07 overflow-not-reported", "second rename on the same object; {}", ctxs()),
                    (Ok((Err(e), _)), Ok(_)) => fail!("C07 rename-fails", "second rename (target t2.example) on an object whose first rename failed for length: {:?}; {}", e, ctxs()),
                    (Ok((Ok(()), None)), Ok(_)) => fail!("C07 object-unusable-after-rename", "no packet; {}", ctxs()),
                }
            }
        }
        (Ok(_), Err(e)) => fail!("C07 rename-fails", "error {:?} although no rewritten name exceeds 255 bytes; {}", e, ctxs()),
        (Ok((want, rewritten)), Ok(out)) => {
            let d2 = match refdec::decode(out, refdec::Opts::default()) {
                Ok(d2) if !d2.quirk => d2,
                Ok(_) => fail!("C07 output-unspecified", "{}", hex_abbrev(out)),
                Err(r) => fail!(format!("C07 output-not-well-formed {}", r.clause), "reference rejects the output ({:?}); output={} {}", r, hex_abbrev(out), ctxs()),
            };
            match lib_parse(out) {
                Ok(Ok(_)) => {}
                Ok(Err(e)) => fail!("C07 output-rejected-by-parser", "{:?}; output={} {}", e, hex_abbrev(out), ctxs()),
                Err(pm) => fail!(format!("C07 output-parse-panic {}", panic_sig(&pm)), "{}", pm),
            }
            ensure!(d2.msg.eq_ci(want), "C07 wrong-result", "{}; output={} {}", want.diff(&d2.msg, true), hex_abbrev(out), ctxs());
            if a.target.eq_ci(&a.source) {
                ensure!(d2.msg.eq_ci(&d.msg), "C07 identity-rename-changed-message", "{}", ctxs());
                st.class("identity");
            }
            if *rewritten > 0 {
                st.class("rewritten");
                for r in d.msg.all_records() {
                    if r.is_opt() {
                        continue;
                    }
                    let mut r2 = r.clone();
                    let names = r2.names_mut();
                    if names.len() > 1 && names[1..].iter().any(|n| model_rename_name(n, &a.target, &a.source, a.suffix) != **n) {
                        st.class(match r.rdata {
                            Rdata::Name1(_) => "rewritten-in:name1",
                            Rdata::Mx(..) => "rewritten-in:mx",
                            Rdata::Soa(..) => "rewritten-in:soa",
                            _ => "rewritten-in:other",
                        });
                    }
                }
            }
            if let Some(mut pp) = after {
                // the object must be usable and match a fresh parse of its bytes
                let r = catch(|| -> PResult {
                    check_walks(&mut pp, &d2, out, 1, "C07")?;
                    check_summary(&mut pp, &d2, 2, "C07", false)
                });
                match r {
                    Err(pm) => fail!(format!("C07 object-unusable-after-rename {}", panic_sig(&pm)), "{}; {}", pm, ctxs()),
                    Ok(r) => r?,
                }
                st.class("packet-level-ok");
            }
        }
    }
    Ok(())
}

/// A packet and a suffix rename whose source name, laid over the end of a packet name, starts in
/// the middle of a label at a data byte that equals the source's first label-length byte.
fn c07_length_byte_case(src: &mut Src, st: &mut Stats) -> PResult {
    let l = *src.pick(&[32usize, 33, 45, 48, 57, 61]);
    let x: Vec<u8> = (0..l).map(|_| *src.pick(b"abcdefgh")).collect();
    let rest = Name::from_dotted(*src.pick(&["com", "example.org", "a.b.c"]));
    let mut source = Name(vec![x.clone()]);
    source.0.extend(rest.0.clone());
    // trap: one label "p" + byte(l) + x, then rest
    let mut trap_label = vec![b'p', l as u8];
    trap_label.extend(&x);
    let mut trap = Name(vec![trap_label]);
    trap.0.extend(rest.0.clone());
    let mut sub = Name(vec![b"www".to_vec()]);
    sub.0.extend(source.0.clone());
    let target = if src.chance(128) {
        // same first-label length: the wrong rewrite would still be a well-formed name
        let mut t = Name(vec![(0..l).map(|_| b'z').collect()]);
        t.0.extend(Name::from_dotted("net").0);
        t
    } else {
        Name::from_dotted("renamed.example.net")
    };
    let a_rec = |o: &Name| Record { owner: o.clone(), rtype: T_A, class: 1, ttl: 9, rdata: Rdata::A([1, 2, 3, 4]) };
    let m = Message {
        id: src.u16(),
        flags: 0x8180,
        qd: vec![Question { name: if src.chance(128) { trap.clone() } else { source.clone() }, qtype: 1, qclass: 1 }],
        an: vec![a_rec(&trap), a_rec(&source), Record { owner: sub.clone(), rtype: T_CNAME, class: 1, ttl: 3, rdata: Rdata::Name1(trap.clone()) }],
        ns: vec![Record { owner: source.clone(), rtype: T_NS, class: 1, ttl: 3, rdata: Rdata::Name1(sub.clone()) }],
        ..Default::default()
    };
    let bytes = if src.chance(128) { enc::encode(&m, Layout::Literal).bytes } else { enc::encode(&m, Layout::Random(src)).bytes };
    let d = match refdec::decode_strict(&bytes) {
        Some(d) => d,
        None => fail!("HARNESS: C07 length-byte packet not accepted by reference", "{}", hex_abbrev(&bytes)),
    };
    st.class("source:near-miss-length-byte-inside-label");
    let a = RenameArgs { target, source, suffix: true, kind: "near-miss-length-byte-inside-label" };
    c07_oracle(&bytes, &d, &a, src.chance(80), st)?;
    st.nontrivial(&bytes);
    Ok(())
}

fn c07_case(data: &[u8], st: &mut Stats) -> PResult {
    let mut src = Src::new(data);
    crate::history::case(&mut src, st, 6, c07_body)
}

fn c07_body(src: &mut Src, st: &mut Stats) -> PResult {
    let mut src = src.fork();
    if src.chance(12) {
        return c07_length_byte_case(&mut src, st);
    }
    let o = GenOpts { big: false, many: false, ..GenOpts::default() };
    let (bytes, d, _tag) = if src.chance(20) {
        // the compressor's families (suffix nesting up to depth 40, many distinct suffixes, long and
        // mixed-case suffixes): the renamer re-compresses its output and meets the same limits
        let (m, tag) = gen_compress_message(&mut src);
        if m.to_wire_plain().len() > 20_000 {
            st.class("skipped:family-message-too-large");
            return Ok(());
        }
        let bytes = if src.chance(128) { enc::encode(&m, Layout::Literal).bytes } else { enc::encode(&m, Layout::Random(&mut src)).bytes };
        match refdec::decode_strict(&bytes) {
            Some(d) => {
                st.class(&format!("compress-family:{}", tag));
                (bytes, d, "family".to_string())
            }
            None => {
                st.class("skipped:not-accepted-by-reference");
                return Ok(());
            }
        }
    } else {
        match gen_accepted(&mut src, &o) {
            Some(x) => x,
            None => {
                st.class("skipped:not-accepted-by-reference");
                return Ok(());
            }
        }
    };
    if !matches!(lib_parse(&bytes), Ok(Ok(_))) {
        st.class("skipped:parser-rejects");
        return Ok(());
    }
    let a = gen_rename_args(&mut src, &d.msg);
    if !a.source.clean() || !a.target.clean() || !a.source.well_formed() || !a.target.well_formed() {
        st.class("skipped:argument-not-well-formed");
        return Ok(());
    }
    let packet_level = src.chance(100);
    st.class(&format!("source:{}", a.kind));
    st.class(&format!("opt:{:?}", gens::opt_pos(&d.msg)));
    st.class(if a.suffix { "mode:suffix" } else { "mode:exact" });
    let before = st.count("rewritten");
    c07_oracle(&bytes, &d, &a, packet_level, st)?;
    if st.frozen || st.count("rewritten") > before || a.kind.starts_with("near-miss") {
        st.nontrivial(&(bytes.clone(), a.target.clone(), a.source.clone(), a.suffix));
        let cls = format!("source:{}", a.kind);
        if st.wants_sample(&cls) {
            st.sample(&cls, json!({"packet": hex_abbrev(&bytes), "decoded": d.msg.show().chars().take(300).collect::<String>(), "target": a.target.show(), "source": a.source.show(), "suffix": a.suffix, "packet_level": packet_level}));
        }
    }
    Ok(())
}

pub fn replay_c07(data: &[u8]) -> PResult {
    c07_case(data, &mut Stats::default())
}

pub fn c07_regressions() -> Vec<(&'static str, Message, RenameArgs, bool)> {
    let q = |s: &str| Question { name: Name::from_dotted(s), qtype: 1, qclass: 1 };
    let args = |t: &str, s: &str, suffix: bool| RenameArgs { target: Name::from_dotted(t), source: Name::from_dotted(s), suffix, kind: "present" };
    let mx = Record { owner: Name::from_dotted("example.com"), rtype: T_MX, class: 1, ttl: 5, rdata: Rdata::Mx(10, Name::from_dotted("mail.example.com")) };
    let soa = Record { owner: Name::from_dotted("example.com"), rtype: T_SOA, class: 1, ttl: 5, rdata: Rdata::Soa(Name::from_dotted("ns.example.com"), Name::from_dotted("admin.example.com"), vec![7; 20]) };
    let mut v = vec![];
    // D6 / D18: MX and SOA rdlen
    v.push(("mx", Message { id: 1, flags: 0x8180, qd: vec![q("example.com")], an: vec![mx.clone()], ..Default::default() }, args("example.net", "example.com", true), false));
    v.push(("soa", Message { id: 1, flags: 0x8180, qd: vec![q("example.com")], ns: vec![soa], ..Default::default() }, args("example.net", "example.com", true), false));
    // D7: OPT not last
    v.push(("opt-first", Message { id: 1, flags: 0x8180, qd: vec![q("example.com")], ar: vec![opt_rec(), a_rec("a.example.com")], ..Default::default() }, args("example.net", "example.com", true), false));
    v.push(("opt-middle", Message { id: 1, flags: 0x8180, qd: vec![q("example.com")], ar: vec![a_rec("b.example.com"), opt_rec(), a_rec("a.example.com")], ..Default::default() }, args("example.net", "example.com", true), false));
    // D17: packet-level wrapper
    v.push(("packet-level", Message { id: 1, flags: 0x8180, qd: vec![q("example.com")], an: vec![a_rec("www.example.com")], ..Default::default() }, args("example.net", "example.com", true), true));
    v.push(("packet-level-exact-miss", Message { id: 1, flags: 0x8180, qd: vec![q("example.com")], an: vec![a_rec("www.example.com")], ..Default::default() }, args("example.net", "nomatch.org", false), true));
    v
}

pub fn check_c07(ctx: &Ctx, known: &KnownFindings) -> Report {
    let mut rep = Report::new("C07");
    let ks = known_sigs(known, "C07");
    rep.rule = "accepted packets (small, any layout, OPT anywhere; 1 in 13 from the compressor's families: suffix nesting up to depth 40, 20-200 distinct suffixes, long and mixed-case suffixes) x (target, source, exact|suffix): source drawn from the suffixes present in the packet at every label depth (plain, case-flipped), near-misses (partial label, one byte changed, bit 5 of a non-letter byte flipped, one extra label), absent names; target generated, = source, single label, or 64..255 bytes long (overflow). Both Renamer::rename_with_raw_names and the ParsedPacket wrapper. Oracle: specification of renaming applied to the decoded message; overflow => Err (object unchanged and usable, summaries like a fresh parse, and a second rename of the same object with a target that fits gives the specified result); else Ok, output accepted by parser and reference and equal to the renamed model up to name case (header, counts, order, types, classes, TTLs, opaque data, OPT record and its position exact); identity rename leaves the message unchanged; after the wrapper the object walks and summarises like a fresh parse. Non-trivial: >= 1 name rewritten or a near-miss source; distinct = hash of (packet, args).".into();
    rep.assumptions = vec![
        "source and target are well-formed, pointer-free, non-root raw names within the label character policy".into(),
        "domain = packets accepted by both parser and reference".into(),
    ];
    for (name, m, a, pl) in c07_regressions() {
        let r = catch(|| -> PResult {
            let u = enc::encode(&m, Layout::Literal).bytes;
            let d = refdec::decode_strict(&u).ok_or_else(|| Failure::new("HARNESS: regression not accepted", name))?;
            c07_oracle(&u, &d, &a, pl, &mut Stats::default())
        });
        rep.direct(name, r, &ks);
    }
    let prop = (1200usize, c07_case);
    let r = drive(&prop, ctx.cases(600_000, 8_000_000), ctx, 7, &ks);
    rep.absorb(r);
    rep.require(&[
        "rewritten",
        "identity",
        "overflow-rejected",
        "packet-level-ok",
        "packet-level-after-in-place-decompression",
        "rewritten-in:name1",
        "rewritten-in:mx",
        "rewritten-in:soa",
        "source:present",
        "source:present-case-flipped",
        "source:near-miss-partial-label",
        "source:near-miss-byte-changed",
        "source:near-miss-extra-label",
        "source:near-miss-length-byte-inside-label",
        "source:near-miss-bit5-of-non-letter",
        "rename-after-failed-rename",
        "source:asterisk-label",
        "compress-family:nested",
        "source:absent",
        "mode:suffix",
        "mode:exact",
        "opt:First",
        "opt:Middle",
        "opt:Last",
    ]);
    rep
}

//! C13 (record text -> wire record) and C14 (host names text <-> wire).

use crate::gens::GenOpts;
use crate::model::*;
use crate::props::known_sigs;
use crate::props::parse_props::lib_parse;
use crate::props::read_props::gen_accepted;
use crate::refdec;
use crate::rrtext::{self, TextOpts};
use crate::runner::*;
use crate::src::Src;
use dnssector::constants::Section;
use dnssector::synth::gen as dgen;
use dnssector::TypedIterable;
use serde_json::json;

const NINE_TYPES: [u16; 9] = [T_A, T_AAAA, T_NS, T_CNAME, T_PTR, T_TXT, T_MX, T_SOA, T_DS];

/// Decode a stand-alone record by wrapping it into a minimal response.
pub fn decode_single(rr: &[u8]) -> Result<Record, String> {
    let mut b = vec![0, 0, 0x80, 0, 0, 1, 0, 1, 0, 0, 0, 0, 0, 0, 1, 0, 1];
    b.extend_from_slice(rr);
    match refdec::decode(&b, refdec::Opts::default()) {
        Ok(d) if !d.quirk && !d.has_pointer() => Ok(d.msg.an[0].clone()),
        Ok(_) => Err("record uses pointers / quirky name".into()),
        Err(r) => Err(format!("{:?}", r)),
    }
}

fn from_string(text: &str) -> Result<Result<(Vec<u8>, Vec<u8>), String>, String> {
    catch(|| dgen::RR::from_string(text).map(|rr| (rr.packet.clone(), rr.rdata().to_vec())).map_err(|e| e.to_string()))
}

fn c13_valid(src: &mut Src, st: &mut Stats) -> PResult {
    let tc = rrtext::gen_valid(src, &TextOpts::default());
    let tname = match tc.rec.rtype {
        T_A => "A",
        T_AAAA => "AAAA",
        T_NS => "NS",
        T_CNAME => "CNAME",
        T_PTR => "PTR",
        T_TXT => "TXT",
        T_MX => "MX",
        T_SOA => "SOA",
        _ => "DS",
    };
    st.class(&format!("valid:{}", tname));
    for f in &tc.features {
        st.class(&format!("feature:{}", f));
    }
    let show = || tc.text.chars().take(400).collect::<String>();
    let (packet, rdata) = match from_string(&tc.text) {
        Err(pm) => fail!(format!("C13 synthesis-panic {}", panic_sig(&pm)), "panic={} text={:?}", pm, show()),
        Ok(Err(e)) => fail!(format!("C13 valid-text-refused {}", tname), "error {:?} for grammar-derived text {:?} (features {:?})", e, show(), tc.features),
        Ok(Ok(x)) => x,
    };
    let want = tc.rec.to_wire();
    ensure!(packet == want, format!("C13 wrong-wire-form {}", tname), "text={:?}\n got={}\nwant={}", show(), hex_abbrev(&packet), hex_abbrev(&want));
    ensure!(rdata == tc.rec.rdata_wire(), format!("C13 wrong-rdata-accessor {}", tname), "text={:?} rdata()={}", show(), hex_abbrev(&rdata));
    // insert into a generated accepted response
    if src.chance(150) {
        let o = GenOpts { big: false, many: false, max_small: 3, response: Some(true), header_names: false, ..GenOpts::default() };
        if let Some((bytes, d, _)) = gen_accepted(src, &o) {
            if let Ok(Ok(mut pp)) = lib_parse(&bytes) {
                // answer/authority only in responses (QR gating)
                let sec = if d.msg.is_response() { src.range(1, 3) } else { 3 };
                let section = match sec {
                    1 => Section::Answer,
                    2 => Section::NameServers,
                    _ => Section::Additional,
                };
                // second time round: first fill the packet with 3.8 kB TXT records until one is refused
                // (8192-byte limit); the refused insertion must leave nothing behind
                let mut d = d;
                if src.chance(3) {
                    let big = format!("big.example. 1 IN TXT \"{}\"", "a".repeat(3800));
                    let mut refused = false;
                    for _ in 0..4 {
                        match catch(|| pp.insert_rr_from_string(section, &big).map_err(|e| e.to_string())) {
                            Err(pm) => fail!(format!("C13 insert-panic {}", panic_sig(&pm)), "big TXT: {}", pm),
                            Ok(Ok(())) => {}
                            Ok(Err(_)) => {
                                refused = true;
                                break;
                            }
                        }
                    }
                    ensure!(refused, "C13 insert-beyond-8192-accepted", "four 3.8 kB TXT records were inserted into {}", hex_abbrev(&bytes));
                    let nb0 = pp.packet.clone().unwrap_or_default();
                    d = match refdec::decode_strict(&nb0) {
                        Some(x) => x,
                        None => fail!("C13 packet-not-well-formed-after-refused-insert", "a 3.8 kB TXT record was refused for size; the packet is now {}", hex_abbrev(&nb0)),
                    };
                    st.class("insert-after-refused-insert");
                }
                let plain_len = d.msg.to_wire_plain().len();
                let r = catch(|| pp.insert_rr_from_string(section, &tc.text).map_err(|e| e.to_string()));
                match r {
                    Err(pm) => fail!(format!("C13 insert-panic {}", panic_sig(&pm)), "panic={} text={:?} packet={}", pm, show(), hex_abbrev(&bytes)),
                    Ok(Err(e)) => {
                        ensure!(plain_len + want.len() > 8192, "C13 insert-of-valid-record-fails", "{:?}; text={:?} packet={}", e, show(), hex_abbrev(&bytes));
                    }
                    Ok(Ok(())) => {
                        let nb = pp.packet.clone().unwrap_or_default();
                        let d2 = match refdec::decode_strict(&nb) {
                            Some(d2) => d2,
                            None => fail!("C13 packet-not-well-formed-after-insert", "text={:?} packet after={}", show(), hex_abbrev(&nb)),
                        };
                        ensure!(matches!(lib_parse(&nb), Ok(Ok(_))), "C13 packet-rejected-after-insert", "text={:?} packet after={}", show(), hex_abbrev(&nb));
                        let last = d2.msg.section(sec).last();
                        ensure!(last == Some(&tc.rec), "C13 inserted-record-differs", "last record of section {} is {:?}, want {}", sec, last.map(|r| r.show()), tc.rec.show());
                        st.class("inserted");
                        // the packet just produced is a valid packet too: insert further records into it
                        let more = src.below(3);
                        let mut model = d2.msg.clone();
                        for k in 0..more {
                            let tc2 = rrtext::gen_valid(src, &TextOpts { max_wire: 120, ..TextOpts::default() });
                            let sec2 = if model.is_response() { src.range(1, 3) } else { 3 };
                            let section2 = match sec2 {
                                1 => Section::Answer,
                                2 => Section::NameServers,
                                _ => Section::Additional,
                            };
                            if model.to_wire_plain().len() + tc2.rec.to_wire().len() > 8192 {
                                break;
                            }
                            match catch(|| pp.insert_rr_from_string(section2, &tc2.text).map_err(|e| e.to_string())) {
                                Err(pm) => fail!(format!("C13 insert-panic {}", panic_sig(&pm)), "insert #{}: {} text={:?}", k + 2, pm, tc2.text),
                                Ok(Err(e)) => fail!("C13 insert-of-valid-record-fails", "insert #{} {:?}: {:?}", k + 2, tc2.text, e),
                                Ok(Ok(())) => {}
                            }
                            model.section_mut(sec2).push(tc2.rec.clone());
                            let nb = pp.packet.clone().unwrap_or_default();
                            match refdec::decode_strict(&nb) {
                                Some(d3) => ensure!(d3.msg == model, "C13 inserted-record-differs", "after insert #{} into section {}: {}; first text {:?}", k + 2, sec2, model.diff(&d3.msg, false), show()),
                                None => fail!("C13 packet-not-well-formed-after-insert", "after insert #{} (section {}) of {:?} following {:?} (section {}); packet={}", k + 2, sec2, tc2.text, show(), sec, hex_abbrev(&nb)),
                            }
                            st.class("inserted-again");
                        }
                    }
                }
            }
        }
    }
    if !tc.features.is_empty() {
        st.nontrivial(&tc.text);
        let cls = format!("valid:{}", tname);
        if st.wants_sample(&cls) {
            st.sample(&cls, json!({"text": show(), "features": tc.features, "wire": hex_abbrev(&want)}));
        }
    }
    Ok(())
}

fn c13_damaged(src: &mut Src, st: &mut Stats) -> PResult {
    let tc = rrtext::gen_valid(src, &TextOpts::default());
    let (text, kind) = rrtext::damage_text(src, &tc);
    st.class(&format!("damaged:{}", kind));
    let show = || text.chars().take(400).collect::<String>();
    match from_string(&text) {
        Err(pm) => fail!(format!("C13 synthesis-panic {}", panic_sig(&pm)), "panic={} text={:?} (damage {})", pm, show(), kind),
        Ok(Ok((packet, _))) => fail!(format!("C13 excluded-text-accepted {}", kind), "text {:?} (damage {}) synthesised to {}", show(), kind, hex_abbrev(&packet)),
        Ok(Err(_)) => {}
    }
    st.nontrivial(&text);
    let cls = format!("damaged:{}", kind);
    if st.wants_sample(&cls) {
        st.sample(&cls, json!({"text": show(), "damage": kind}));
    }
    Ok(())
}

fn c13_arbitrary(src: &mut Src, st: &mut Stats) -> PResult {
    const TOKENS: &[&str] = &[
        "example.com", "example.com.", ".", "60", "0", "4294967295", "4294967296", "IN", "in", "A", "AAAA", "NS", "CNAME", "PTR", "TXT", "MX", "SOA", "DS", "1.2.3.4", "::1", "::", "\"txt\"", "\"", "\\000",
        "\\999", "(", ")", "10", "abcdef", "ABC", "\t", " ", "  ", "\n", "é", "\u{0}", "-", "_", "..", "a.b", "65535", "255", "256", "1 2 3 4 5", "( 1 2 3 4 5 )", "deadbeef", "0", "9",
    ];
    let mut text = String::new();
    let mutate_valid = src.chance(128);
    if mutate_valid {
        // a valid text with 1..3 character-level edits: judged only by "no panic, well-formed if accepted"
        let tc = rrtext::gen_valid(src, &TextOpts::default());
        let mut chars: Vec<char> = tc.text.chars().collect();
        let k = src.range(1, 3);
        for _ in 0..k {
            if chars.is_empty() {
                break;
            }
            let at = src.below(chars.len());
            match src.below(4) {
                0 => {
                    chars.remove(at);
                }
                1 => chars.insert(at, *src.pick(&['0', '9', 'a', 'Z', '.', ' ', '\t', '"', '\\', ':', '-', '_', '(', ')', '\n', 'é'])),
                2 => chars[at] = *src.pick(&['0', '5', 'f', 'G', '.', ' ', '"', '\\', ':', '-']),
                _ => {
                    let c = chars[at];
                    chars.insert(at, c);
                }
            }
        }
        text = chars.into_iter().collect();
    }
    let n = if mutate_valid { 0 } else { src.range(0, 14) };
    for _ in 0..n {
        match src.below(4) {
            0 => {
                let c = char::from_u32(src.u16() as u32).unwrap_or('x');
                text.push(c);
            }
            1 => text.push((0x20 + src.below(0x5f)) as u8 as char),
            _ => {
                text.push_str(*src.pick(TOKENS));
                if src.chance(200) {
                    text.push(' ');
                }
            }
        }
    }
    st.class("arbitrary");
    match from_string(&text) {
        Err(pm) => fail!(format!("C13 synthesis-panic {}", panic_sig(&pm)), "panic={} text={:?}", pm, text),
        Ok(Err(_)) => {}
        Ok(Ok((packet, rdata))) => {
            st.class("arbitrary:accepted");
            let rec = match decode_single(&packet) {
                Ok(r) => r,
                Err(e) => fail!("C13 accepted-text-gives-malformed-record", "{} for text {:?}: {}", e, text, hex_abbrev(&packet)),
            };
            ensure!(NINE_TYPES.contains(&rec.rtype) && rec.class == 1, "C13 accepted-text-gives-unexpected-type-or-class", "{:?} -> {}", text, rec.show());
            ensure!(rdata == rec.rdata_wire(), "C13 wrong-rdata-accessor", "{:?}", text);
            // type-correct rdata
            let ok = match (rec.rtype, &rec.rdata) {
                (T_A, Rdata::A(_)) | (T_AAAA, Rdata::Aaaa(_)) | (T_NS, Rdata::Name1(_)) | (T_CNAME, Rdata::Name1(_)) | (T_PTR, Rdata::Name1(_)) | (T_MX, Rdata::Mx(..)) | (T_SOA, Rdata::Soa(..)) => true,
                (T_TXT, Rdata::Opaque(d)) => {
                    // character-strings tile the data
                    let mut i = 0;
                    while i < d.len() {
                        i += 1 + d[i] as usize;
                    }
                    i == d.len() && !d.is_empty()
                }
                (T_DS, Rdata::Opaque(d)) => d.len() > 4,
                _ => false,
            };
            ensure!(ok, "C13 accepted-text-gives-ill-typed-rdata", "{:?} -> {}", text, rec.show());
            st.nontrivial(&text);
            if st.wants_sample("arbitrary:accepted") {
                st.sample("arbitrary:accepted", json!({"text": text, "record": rec.show()}));
            }
        }
    }
    Ok(())
}

fn c13_case(data: &[u8], st: &mut Stats) -> PResult {
    let mut src = Src::new(data);
    crate::history::case(&mut src, st, 6, c13_body)
}

fn c13_body(src: &mut Src, st: &mut Stats) -> PResult {
    let mut src = src.fork();
    crate::history::fire_if_armed(&crate::gens::golden_packets()[0]);
    match src.weighted(&[6, 4, 3]) {
        0 => c13_valid(&mut src, st),
        1 => c13_damaged(&mut src, st),
        _ => c13_arbitrary(&mut src, st),
    }
}

pub fn replay_c13(data: &[u8]) -> PResult {
    c13_case(data, &mut Stats::default())
}

fn c13_regressions() -> Vec<(&'static str, String, Option<Record>)> {
    let mut v = vec![];
    // D10: odd number of hex digits
    v.push(("ds-odd-hex", "example.com. 60 IN DS 12345 8 2 abc".to_string(), None));
    // D22: 62-byte final label directly followed by a blank
    let l62 = "a".repeat(62);
    v.push((
        "owner-final-label-62",
        format!("www.{} 60 IN A 1.2.3.4", l62),
        Some(Record { owner: Name(vec![b"www".to_vec(), l62.clone().into_bytes()]), rtype: T_A, class: 1, ttl: 60, rdata: Rdata::A([1, 2, 3, 4]) }),
    ));
    // D14: MX host of maximal length; SOA with two long names
    let long = |first: &str| -> (String, Name) {
        let mut labels: Vec<Vec<u8>> = vec![first.as_bytes().to_vec()];
        while Name(labels.clone()).wire_len() + 63 <= 253 {
            labels.push(vec![b'x'; 62]);
        }
        let n = Name(labels);
        (String::from_utf8(n.0.join(&b'.')).unwrap(), n)
    };
    let (t1, n1) = long("mx");
    v.push(("mx-long-host", format!("example.com. 60 IN MX 10 {}.", t1), Some(Record { owner: Name::from_dotted("example.com"), rtype: T_MX, class: 1, ttl: 60, rdata: Rdata::Mx(10, n1.clone()) })));
    let (t2, n2) = long("admin");
    v.push((
        "soa-two-long-names",
        format!("example.com. 60 IN SOA {}. {}. ( 1 2 3 4 5 )", t1, t2),
        Some(Record { owner: Name::from_dotted("example.com"), rtype: T_SOA, class: 1, ttl: 60, rdata: Rdata::Soa(n1, n2, vec![0, 0, 0, 1, 0, 0, 0, 2, 0, 0, 0, 3, 0, 0, 0, 4, 0, 0, 0, 5]) }),
    ));
    v
}

pub fn check_c13(ctx: &Ctx, known: &KnownFindings) -> Report {
    let mut rep = Report::new("C13");
    let ks = known_sigs(known, "C13");
    rep.rule = "three streams. valid: grammar-derived texts for the nine types (LDH/underscore names incl. 62-byte labels and maximal 253-byte names, with/without trailing dot, root owner; TTL 0/1/2^31/2^32-1; keywords in three cases; 1-3 blanks/tabs, leading/trailing blanks; A with leading zeros; AAAA compressed/full/uppercase; TXT literal + \\DDD escapes for any byte, lengths 1/254/255/256/510/511/3825; MX 0/65535; SOA with blanks/newlines in the parentheses; DS boundary numbers, 1..64 digest bytes, mixed-case hex) => RR::from_string Ok, bytes == reference RFC 1035 encoding, rdata() == rdata, and insertion into answer/authority/additional of a generated accepted response leaves an accepted packet whose last record of that section is the expected one (also after further insertions, and after an insertion that was refused at the 8192-byte limit). damaged: one grammar-excluded change (24 kinds) => Err. arbitrary: random Unicode/ASCII/token soup => no panic, and anything accepted decodes as exactly one well-formed class-IN record of one of the nine types with type-correct data. Non-trivial: valid text with >= 1 boundary feature, any damaged text, any accepted arbitrary text; distinct = hash of text.".into();
    rep.assumptions = vec!["'valid' texts stay inside the unambiguous core of the grammar: no all-numeric owner names, TXT <= 3825 bytes, host names of wire length <= 253 with labels <= 62".into()];
    for (name, text, want) in c13_regressions() {
        let r = catch(|| -> PResult {
            match (from_string(&text), &want) {
                (Err(pm), _) => fail!(format!("C13 synthesis-panic {}", panic_sig(&pm)), "{} text={:?}", pm, text),
                (Ok(Ok((p, _))), Some(w)) => {
                    ensure!(p == w.to_wire(), "C13 wrong-wire-form regression", "{:?}", text);
                    Ok(())
                }
                (Ok(Err(e)), Some(_)) => fail!("C13 valid-text-refused regression", "{:?} for {:?}", e, text),
                (Ok(Ok(_)), None) => fail!("C13 excluded-text-accepted regression", "{:?}", text),
                (Ok(Err(_)), None) => Ok(()),
            }
        });
        rep.direct(name, r, &ks);
    }
    let prop = (5000usize, c13_case);
    let r = drive(&prop, ctx.cases(1_000_000, 12_000_000), ctx, 13, &ks);
    rep.absorb(r);
    let mut req: Vec<String> = ["A", "AAAA", "NS", "CNAME", "PTR", "TXT", "MX", "SOA", "DS"].iter().map(|t| format!("valid:{}", t)).collect();
    for f in ["label-62", "label-62-final", "maximal-name", "u32-zero", "u32-max", "txt-255", "txt-256", "txt-3825", "txt-escape", "mx-pref-0", "mx-pref-65535", "root-owner", "trailing-dot", "tab", "soa-newline", "keyword-lowercase", "ds-digest-65531"] {
        req.push(format!("feature:{}", f));
    }
    for d in ["ds-odd-hex", "ds-non-hex", "ds-empty-digest", "ds-digest-65532", "bad-ipv4", "bad-ipv6", "ttl-overflow", "field-removed", "field-added", "txt-missing-closing-quote", "txt-empty", "owner-label-too-long", "owner-empty-label", "class-not-in", "unsupported-type", "mx-pref-overflow"] {
        req.push(format!("damaged:{}", d));
    }
    req.push("inserted".into());
    req.push("inserted-again".into());
    req.push("insert-after-refused-insert".into());
    req.push("arbitrary".into());
    req.push("arbitrary:accepted".into());
    rep.required.extend(req);
    rep
}

// ---------------------------------------------------------------------------
// C14
// ---------------------------------------------------------------------------

fn expected_labels(input: &[u8], zone: Option<&Name>) -> Option<Vec<Vec<u8>>> {
    // dot-separated labels of the input (one trailing dot dropped), plus the zone when appended
    let ends_with_dot = input.last() == Some(&b'.');
    let core = if ends_with_dot { &input[..input.len() - 1] } else { input };
    let mut labels: Vec<Vec<u8>> = if core.is_empty() { vec![] } else { core.split(|&c| c == b'.').map(|l| l.to_vec()).collect() };
    if labels.iter().any(|l| l.is_empty()) {
        return None; // empty interior label: must be rejected
    }
    if !input.is_empty() && !ends_with_dot {
        if let Some(z) = zone {
            labels.extend(z.0.clone());
        }
    }
    Some(labels)
}

pub fn c14_oracle(input: &[u8], zone: Option<&Name>, st: &mut Stats) -> PResult {
    let zw = zone.map(|z| z.to_wire());
    let r = catch(|| dgen::raw_name_from_str(input, zw.as_deref()).map_err(|e| e.to_string()));
    let desc = || format!("input={:?} ({}) zone={:?}", String::from_utf8_lossy(input), hex(input), zone.map(|z| z.show()));
    let r = match r {
        Err(pm) => fail!(format!("C14 conversion-panic {}", panic_sig(&pm)), "{} {}", pm, desc()),
        Ok(r) => r,
    };
    // the appending variant must behave the same whatever the output buffer already holds
    for prefix_len in [1usize, 2, 120, 254, 300] {
        let mut buf = vec![0xeeu8; prefix_len];
        let r2 = catch(|| dgen::copy_raw_name_from_str(&mut buf, input, zw.as_deref()).map_err(|e| e.to_string()));
        match (r2, &r) {
            (Err(pm), _) => fail!(format!("C14 conversion-panic {}", panic_sig(&pm)), "appending to a buffer of {} bytes: {} {}", prefix_len, pm, desc()),
            (Ok(Ok(())), Ok(raw)) => ensure!(buf[..prefix_len].iter().all(|&b| b == 0xee) && buf[prefix_len..] == raw[..], "C14 appending-conversion-differs", "{}: appended {} to a {}-byte buffer, stand-alone result {}", desc(), hex(&buf[prefix_len.min(buf.len())..]), prefix_len, hex(raw)),
            (Ok(Err(_)), Err(_)) => {}
            (Ok(Ok(())), Err(e)) => fail!("C14 appending-conversion-differs", "{}: accepted when appending to a {}-byte buffer, refused stand-alone ({})", desc(), prefix_len, e),
            (Ok(Err(e)), Ok(_)) => fail!("C14 appending-conversion-differs", "{}: refused ({}) when appending to a {}-byte buffer, accepted stand-alone", desc(), e, prefix_len),
        }
    }
    let exp = expected_labels(input, zone);
    let ldh = |c: u8| c.is_ascii_alphanumeric() || c == b'-' || c == b'_';
    match &r {
        Ok(raw) => {
            st.class("accepted");
            ensure!(raw.len() <= 255, "C14 result-longer-than-255", "{} -> {} bytes", desc(), raw.len());
            ensure!(refdec::plain_name_ok(raw, false), "C14 result-not-a-well-formed-wire-name", "{} -> {}", desc(), hex(raw));
            let got = Name::from_wire(raw).unwrap();
            match &exp {
                None => fail!("C14 empty-label-accepted", "{} -> {}", desc(), hex(raw)),
                Some(want) => ensure!(&got.0 == want, "C14 labels-differ", "{} -> {} but the input's labels are {}", desc(), got.show(), Name(want.clone()).show()),
            }
            // give the name to the question and read it back (cache filled first, as a caller may do)
            let pkt = crate::gens::golden_packets()[0].clone();
            if let Ok(Ok(mut pp)) = lib_parse(&pkt) {
                let rr = catch(|| {
                    let _ = pp.question_raw0().map(|q| q.0.len());
                    let set = {
                        let mut c = pp.into_iter_question().unwrap();
                        c.set_raw_name(raw).map_err(|e| e.to_string())
                    };
                    set.map(|_| {
                        let r0 = pp.question_raw0().map(|q| q.0.to_vec());
                        let q1 = pp.question().map(|q| q.0);
                        let q2 = pp.question().map(|q| q.0);
                        (r0, q1, q2)
                    })
                });
                match rr {
                    Err(pm) => fail!(format!("C14 question-read-back-panic {}", panic_sig(&pm)), "{} {}", pm, desc()),
                    Ok(Ok((r0, q1, q2))) => {
                        ensure!(r0.as_deref() == Some(&raw[..]), "C14 question-raw-read-back-differs", "{}: question_raw0() = {:?}", desc(), r0.map(|r| hex(&r)));
                        let want = got.to_text_lower();
                        ensure!(q1.as_deref() == Some(&want[..]) && q2 == q1, "C14 question-read-back-differs", "{}: question() = {:?} / {:?}, want {:?}", desc(), q1.map(|v| String::from_utf8_lossy(&v).into_owned()), q2.map(|v| String::from_utf8_lossy(&v).into_owned()), String::from_utf8_lossy(&want));
                    }
                    Ok(Err(_)) => ensure!(!got.clean(), "C14 set_raw_name-refuses-clean-name", "{} -> {}", desc(), got.show()),
                }
            }
            // same, on a synthesised (pointer-free) query, in two steps: first a different name of exactly
            // the same wire length, the cache warmed in between
            if got.clean() {
                let rr = catch(|| -> Result<Option<(Option<Vec<u8>>, Option<Vec<u8>>)>, String> {
                    let mut pp = dgen::query(b"start.example", dnssector::constants::Type::A, dnssector::constants::Class::IN).map_err(|e| e.to_string())?;
                    let twin = Name(got.0.iter().map(|l| vec![b'q'; l.len()]).collect()).to_wire();
                    {
                        let mut c = pp.into_iter_question().ok_or("no question")?;
                        if c.set_raw_name(&twin).is_err() {
                            return Ok(None);
                        }
                    }
                    let _ = pp.question_raw0().map(|q| q.0.len());
                    {
                        let mut c = pp.into_iter_question().ok_or("no question")?;
                        c.set_raw_name(raw).map_err(|e| e.to_string())?;
                    }
                    let r0 = pp.question_raw0().map(|q| q.0.to_vec());
                    let q1 = pp.question().map(|q| q.0);
                    Ok(Some((r0, q1)))
                });
                match rr {
                    Err(pm) => fail!(format!("C14 question-read-back-panic {}", panic_sig(&pm)), "{} {}", pm, desc()),
                    Ok(Err(e)) => fail!("C14 question-rename-fails", "{} {}", e, desc()),
                    Ok(Ok(None)) => {}
                    Ok(Ok(Some((r0, q1)))) => {
                        let want = got.to_text_lower();
                        ensure!(r0.as_deref() == Some(&raw[..]) && q1.as_deref() == Some(&want[..]), "C14 question-read-back-differs", "{}: after a same-length rename on a synthesised query, question_raw0() = {:?}, question() = {:?}", desc(), r0.map(|r| hex(&r)), q1.map(|v| String::from_utf8_lossy(&v).into_owned()));
                        st.class("read-back:same-length-rename-warm-cache");
                    }
                }
            }
            // give the name to a record and read it back
            let pkt = crate::gens::golden_packets()[0].clone();
            if let Ok(Ok(mut pp)) = lib_parse(&pkt) {
                let rr = catch(|| {
                    let mut c = pp.into_iter_answer().unwrap();
                    c.set_raw_name(raw).map(|_| c.name()).map_err(|e| e.to_string())
                });
                match rr {
                    Err(pm) => fail!(format!("C14 set_raw_name-panic {}", panic_sig(&pm)), "{} {}", pm, desc()),
                    Ok(Ok(text)) => {
                        ensure!(text == got.to_text_lower(), "C14 read-back-differs", "{}: name() = {:?}, want {:?}", desc(), String::from_utf8_lossy(&text), String::from_utf8_lossy(&got.to_text_lower()));
                        st.class("read-back");
                    }
                    Ok(Err(_)) => {
                        // only names outside the owner-name character policy may be refused
                        ensure!(!got.clean(), "C14 set_raw_name-refuses-clean-name", "{} -> {}", desc(), got.show());
                    }
                }
            }
        }
        Err(_) => st.class("rejected"),
    }
    // must-accept class
    if let Some(want) = &exp {
        let n = Name(want.clone());
        let input_ldh = input.iter().all(|&c| ldh(c) || c == b'.');
        if input_ldh && want.iter().all(|l| l.len() <= 62) && n.wire_len() <= 253 && zone.map(|z| z.0.iter().all(|l| l.iter().all(|&c| ldh(c)) && l.len() <= 62)).unwrap_or(true) {
            st.class("must-accept");
            ensure!(r.is_ok(), "C14 ldh-name-rejected", "{}: {:?}", desc(), r);
        }
        // must-reject: over-long label or total
        if want.iter().any(|l| l.len() >= 64) || n.wire_len() > 255 {
            st.class("must-reject:too-long");
            ensure!(r.is_err(), "C14 over-long-name-accepted", "{}", desc());
        }
    } else {
        st.class("must-reject:empty-label");
        ensure!(r.is_err(), "C14 empty-label-accepted", "{}", desc());
    }
    Ok(())
}

fn zones() -> Vec<Option<Name>> {
    vec![None, Some(Name::root()), Some(Name::from_dotted("zone")), Some(Name::from_dotted("Sub.Example.COM"))]
}

fn c14_case(data: &[u8], st: &mut Stats) -> PResult {
    let mut src = Src::new(data);
    crate::history::case(&mut src, st, 6, c14_body)
}

fn c14_body(src: &mut Src, st: &mut Stats) -> PResult {
    let mut src = src.fork();
    crate::history::fire_if_armed(&crate::gens::golden_packets()[0]);
    let zs = zones();
    let zone = match src.below(6) {
        0..=3 => zs[src.below(4)].clone(),
        4 => {
            let mut f = vec![];
            Some(rrtext::gen_host(&mut src, 100, &mut f, true).1)
        }
        _ => {
            let wl = *src.pick(&[200usize, 128, 64]);
            Some(crate::gens::name_of_wire_len(&mut src, wl))
        }
    };
    let input: Vec<u8> = match src.weighted(&[5, 4, 3]) {
        0 => {
            // LDH names with label lengths 61..64 and totals 250..256
            let mut labels: Vec<Vec<u8>> = vec![];
            let total = src.range(240, 258);
            let mut used = 0;
            while used < total {
                let l = (*src.pick(&[61usize, 62, 63, 64, 30, 5])).min(total - used).max(1);
                labels.push(rrtext::gen_ldh_label(&mut src, l));
                used += l + 1;
            }
            let mut t = labels.join(&b'.');
            if src.chance(100) {
                t.push(b'.');
            }
            st.class("input:boundary-ldh");
            t
        }
        1 => {
            let mut f = vec![];
            let (t, _) = rrtext::gen_host(&mut src, 253, &mut f, true);
            st.class("input:host");
            t.into_bytes()
        }
        _ => {
            let n = src.below(40);
            st.class("input:arbitrary-bytes");
            (0..n).map(|_| if src.chance(60) { b'.' } else { src.u8() }).collect()
        }
    };
    c14_oracle(&input, zone.as_ref(), st)?;
    if input.iter().filter(|&&c| c == b'.').count() >= 1 || input.len() >= 60 {
        st.nontrivial(&(input.clone(), zone.clone()));
        if st.wants_sample("generated") {
            st.sample("generated", json!({"input": String::from_utf8_lossy(&input), "zone": zone.map(|z| z.show())}));
        }
    }
    Ok(())
}

pub fn replay_c14(data: &[u8]) -> PResult {
    c14_case(data, &mut Stats::default())
}

pub fn check_c14(ctx: &Ctx, known: &KnownFindings) -> Report {
    let mut rep = Report::new("C14");
    let ks = known_sigs(known, "C14");
    const ALPHA: [u8; 9] = [b'a', b'B', b'.', b'-', b'_', b'1', 0x00, 0x80, b'\\'];
    let maxlen = if ctx.tier == Tier::Thorough { 6 } else { 5 };
    let zs = zones();
    let mut enumerated = 0u64;
    let mut cur: Vec<u8> = vec![];
    // odometer enumeration of all strings of length 0..=maxlen
    let mut stats = Stats::default();
    'outer: for len in 0..=maxlen {
        let mut idx = vec![0usize; len];
        loop {
            cur.clear();
            cur.extend(idx.iter().map(|&i| ALPHA[i]));
            for z in &zs {
                enumerated += 1;
                let r = catch(|| c14_oracle(&cur, z.as_ref(), &mut stats));
                if !matches!(r, Ok(Ok(()))) {
                    rep.direct(&format!("enumerated:{}:{:?}", hex(&cur), z.as_ref().map(|z| z.show())), r, &ks);
                    if rep.founds.len() >= 4 {
                        break 'outer;
                    }
                } else {
                    rep.stats.evals += 1;
                }
            }
            if cur.contains(&b'.') {
                rep.counted_nontrivial += zs.len() as u64;
            }
            // increment
            let mut k = len;
            loop {
                if k == 0 {
                    break;
                }
                k -= 1;
                idx[k] += 1;
                if idx[k] < ALPHA.len() {
                    break;
                }
                idx[k] = 0;
                if k == 0 {
                    k = usize::MAX;
                    break;
                }
            }
            if len == 0 || k == usize::MAX {
                break;
            }
        }
    }
    rep.stats.merge(stats);
    rep.stats.class_n("enumerated", enumerated);
    rep.exhaustive = Some(true);
    rep.extra.insert("exhaustive_subspace".into(), json!(format!("all byte strings of length <= {} over {{a,B,'.','-','_','1',0x00,0x80,'\\\\'}} x 4 default zones (none, root, 1 label, 3 labels) = {} conversions", maxlen, enumerated)));
    rep.stats.sample("enumerated", json!({"input": "a.B", "zone": "zone.", "expected_labels": ["a", "B", "zone"]}));
    let prop = (600usize, c14_case);
    let r = drive(&prop, ctx.cases(800_000, 10_000_000), ctx, 14, &ks);
    rep.absorb(r);
    rep.rule = "exhaustive: see exhaustive_subspace; generated: LDH names with label lengths 61..64 and totals 240..258, grammar host names up to 253 wire bytes, arbitrary byte strings, x default zone (none/root/1..4 labels/long). Oracle: if raw_name_from_str is Ok the result is a pointer-free well-formed wire name <= 255 bytes with labels <= 63 whose label list is the input split on '.' (one trailing dot dropped) followed by the zone's labels iff a zone was given and the non-empty input did not end in a dot; giving it to a record with set_raw_name (when that succeeds; only names outside the owner character policy may be refused) reads back as the lower-cased dotted form. Must accept: LDH/underscore labels <= 62 and wire <= 253. Must reject: empty interior/leading label, label >= 64, wire > 255. Non-trivial: name with >= 2 labels or >= 60 bytes; distinct = hash(input, zone) (enumeration counted exactly).".into();
    rep.assumptions = vec!["63-byte labels and wire lengths 254/255 are left unconstrained (the property promises acceptance up to 62/253 and rejection only of over-long names)".into()];
    rep.require(&["accepted", "rejected", "read-back", "read-back:same-length-rename-warm-cache", "must-accept", "must-reject:too-long", "must-reject:empty-label", "input:boundary-ldh", "input:host", "input:arbitrary-bytes", "enumerated"]);
    rep
}

//! C16 (C error descriptions are private to the calling thread) and
//! C17 (results depend only on the arguments).

use crate::enc::{self, Layout};
use crate::gens::{self, GenOpts};
use crate::model::*;
use crate::props::known_sigs;
use crate::props::xform_props::gen_rename_args;
use crate::refdec;
use crate::rrtext::{self, TextOpts};
use crate::runner::*;
use crate::src::Src;
use dnssector::c_abi::{fn_table, CErr, FnTable};
use dnssector::synth::gen as dgen;
use dnssector::{Compress, DNSSector, ParsedPacket, Renamer};
use serde_json::json;
use std::ffi::CStr;
use std::sync::mpsc::{channel, Receiver, Sender};

// ---------------------------------------------------------------------------
// C16
// ---------------------------------------------------------------------------

/// Failing table calls with distinct descriptions.
pub const FAIL_KINDS: usize = 13;

/// Objects that failing calls were made on stay alive as long as their worker thread: a description
/// must not depend on the packet that produced it, but a library that (wrongly) ties the two together
/// must show up as a wrong text, not as a use-after-free that kills the harness.
#[derive(Default)]
pub struct Keep {
    big: Option<ParsedPacket>,
    retired: Vec<ParsedPacket>,
}

fn fail_call(t: &FnTable, pp: &mut ParsedPacket, kind: usize, err: &mut *const CErr, keep: &mut Keep) -> i32 {
    unsafe {
        match kind {
            0 => {
                let mut out = [0u8; 256];
                let mut len: libc::size_t = 0;
                let name = b"a..b";
                (t.raw_name_from_str)(&mut out, &mut len, err as *mut *const CErr, name.as_ptr() as *const libc::c_char, name.len())
            }
            1 => {
                let mut out = [0u8; 256];
                let mut len: libc::size_t = 0;
                let name = [b'x'; 70];
                (t.raw_name_from_str)(&mut out, &mut len, err as *mut *const CErr, name.as_ptr() as *const libc::c_char, name.len())
            }
            2 => {
                let text = b"this is not a record\0";
                (t.add_to_answer)(pp as *mut ParsedPacket, err as *mut *const CErr, text.as_ptr() as *const libc::c_char)
            }
            3 => {
                // second question
                let text = b"q.example. 1 IN A 1.2.3.4\0";
                (t.add_to_question)(pp as *mut ParsedPacket, err as *mut *const CErr, text.as_ptr() as *const libc::c_char)
            }
            4 => {
                let mut out = [0u8; 256];
                let mut len: libc::size_t = 0;
                let name = [b'y'; 254];
                (t.raw_name_from_str)(&mut out, &mut len, err as *mut *const CErr, name.as_ptr() as *const libc::c_char, name.len())
            }
            5 => {
                let mut out = [0u8; 256];
                let mut len: libc::size_t = 0;
                let name = [b'a', 0xc3, 0xa9];
                (t.raw_name_from_str)(&mut out, &mut len, err as *mut *const CErr, name.as_ptr() as *const libc::c_char, name.len())
            }
            6 => {
                // rename with an empty target name
                let src_name = [1u8, b'a', 0];
                (t.rename_with_raw_names)(pp as *mut ParsedPacket, err as *mut *const CErr, src_name.as_ptr(), 0, src_name.as_ptr(), src_name.len(), false)
            }
            7 => {
                // rename to the root name (one of the longest descriptions there are)
                let src_name: Vec<u8> = pp.question_raw0().expect("golden packet 0 has a question").0.to_vec();
                let root = [0u8];
                (t.rename_with_raw_names)(pp as *mut ParsedPacket, err as *mut *const CErr, root.as_ptr(), 1, src_name.as_ptr(), src_name.len(), false)
            }
            8 => {
                // insertion into a packet that is 8 bytes short of the 8192-byte limit: "Packet too large"
                let big = keep.big.get_or_insert_with(|| DNSSector::new(big_packet().clone()).unwrap().parse().unwrap());
                let text = b"www.example.com. 1 IN A 1.2.3.4\0";
                (t.add_to_answer)(big as *mut ParsedPacket, err as *mut *const CErr, text.as_ptr() as *const libc::c_char)
            }
            12 => {
                // record text that is not UTF-8: refused by the table entry itself, before the native call
                let text = b"ex\xffmple.com. 60 IN A 192.0.2.1\0";
                (t.add_to_answer)(pp as *mut ParsedPacket, err as *mut *const CErr, text.as_ptr() as *const libc::c_char)
            }
            _ => {
                // failures inside an iteration callback: second delete of a record ("Void record"),
                // set_raw_name with a name that is not well-formed
                keep.retired.push(DNSSector::new(gens::golden_packets()[0].clone()).unwrap().parse().unwrap());
                let own = keep.retired.last_mut().unwrap();
                let mut cbx = CbCtx { table: t, err: err as *mut *const CErr, rc: 0, kind };
                (t.iter_answer)(own as *mut ParsedPacket, cb_fail, &mut cbx as *mut CbCtx as *mut libc::c_void);
                cbx.rc
            }
        }
    }
}

struct CbCtx<'a> {
    table: &'a FnTable,
    err: *mut *const CErr,
    rc: i32,
    kind: usize,
}

const BAD_RAW_NAME: [u8; 5] = [3, b'a', b'.', b'b', 0];
const POINTER_RAW_NAME: [u8; 4] = [1, b'a', 0xc0, 0x0c];

unsafe extern "C" fn cb_fail(ctx: *mut libc::c_void, it: *const dnssector::c_abi::SectionIterator) -> bool {
    unsafe {
        let c = &mut *(ctx as *mut CbCtx);
        let it = &mut *(it as *mut dnssector::c_abi::SectionIterator);
        if c.kind == 9 {
            let first = (c.table.delete)(it, c.err);
            assert_eq!(first, 0, "first delete of a live record succeeds");
            c.rc = (c.table.delete)(it, c.err);
        } else {
            let bad: &[u8] = if c.kind == 10 { &BAD_RAW_NAME } else { &POINTER_RAW_NAME };
            c.rc = (c.table.set_raw_name)(it, c.err, bad.as_ptr(), bad.len());
        }
        false
    }
}

/// A response of 8184 bytes: the shortest insertion (>= 11 bytes) exceeds the 8192-byte limit.
fn big_packet() -> &'static Vec<u8> {
    static BIG: std::sync::OnceLock<Vec<u8>> = std::sync::OnceLock::new();
    BIG.get_or_init(|| {
        let mut m = Message { id: 7, flags: 0x8180, qd: vec![Question { name: Name::from_dotted("example.com"), qtype: 16, qclass: 1 }], ..Default::default() };
        let base = enc::encode(&m, Layout::Literal).bytes.len();
        let mut left = 8184 - base;
        while left > 0 {
            // owner example.com (13) + 10 = 23 bytes of overhead per record
            let d = (left - 23).min(4000);
            let d = if left - 23 - d > 0 && left - 23 - d < 23 { d - 23 } else { d };
            m.an.push(Record { owner: Name::from_dotted("example.com"), rtype: T_TXT, class: 1, ttl: 1, rdata: Rdata::Opaque(vec![0; d]) });
            left -= 23 + d;
        }
        let b = enc::encode(&m, Layout::Literal).bytes;
        assert_eq!(b.len(), 8184);
        b
    })
}

/// Expected description of each failure kind, computed through the native API.
fn native_descriptions() -> Vec<String> {
    let mut v = vec![];
    v.push(dgen::raw_name_from_str(b"a..b", None).unwrap_err().to_string());
    v.push(dgen::raw_name_from_str(&[b'x'; 70], None).unwrap_err().to_string());
    v.push(dgen::RR::from_string("this is not a record").unwrap_err().to_string());
    let mut pp = DNSSector::new(gens::golden_packets()[0].clone()).unwrap().parse().unwrap();
    v.push(pp.insert_rr_from_string(dnssector::constants::Section::Question, "q.example. 1 IN A 1.2.3.4").unwrap_err().to_string());
    v.push(dgen::raw_name_from_str(&[b'y'; 254], None).unwrap_err().to_string());
    v.push(dgen::raw_name_from_str(&[b'a', 0xc3, 0xa9], None).unwrap_err().to_string());
    v.push(pp.rename_with_raw_names(&[], &[1, b'a', 0], false).unwrap_err().to_string());
    let qn: Vec<u8> = pp.question_raw0().expect("golden packet 0 has a question").0.to_vec();
    v.push(pp.rename_with_raw_names(&[0], &qn, false).unwrap_err().to_string());
    {
        let mut big = DNSSector::new(big_packet().clone()).unwrap().parse().unwrap();
        v.push(big.insert_rr_from_string(dnssector::constants::Section::Answer, "www.example.com. 1 IN A 1.2.3.4").unwrap_err().to_string());
    }
    {
        use dnssector::rr_iterator::TypedIterable;
        let mut own = DNSSector::new(gens::golden_packets()[0].clone()).unwrap().parse().unwrap();
        let mut it = own.into_iter_answer().expect("golden packet 0 has an answer");
        it.delete().expect("first delete");
        v.push(it.delete().unwrap_err().to_string());
        let mut own = DNSSector::new(gens::golden_packets()[0].clone()).unwrap().parse().unwrap();
        let mut it = own.into_iter_answer().expect("golden packet 0 has an answer");
        v.push(it.set_raw_name(&BAD_RAW_NAME).unwrap_err().to_string());
    }
    {
        use dnssector::rr_iterator::TypedIterable;
        let mut own = DNSSector::new(gens::golden_packets()[0].clone()).unwrap().parse().unwrap();
        let mut it = own.into_iter_answer().expect("golden packet 0 has an answer");
        v.push(it.set_raw_name(&POINTER_RAW_NAME).unwrap_err().to_string());
    }
    v.push(dnssector::DSError::ParseError.to_string());
    assert_eq!(v.len(), FAIL_KINDS);
    if std::env::var_os("VERIF_DEBUG_TRACES").is_some() {
        eprintln!("C16 descriptions: {:#?}", v);
    }
    v
}

enum Cmd {
    /// failure kind, and for packet-level calls optionally a packet shared between the threads
    Fail(usize, Option<usize>),
    Read,
    Quit,
}

enum Reply {
    Failed(i32),
    /// (description retrieved now, content of the pointer retrieved at the first read after the last failure)
    Desc(Option<String>, Option<String>),
}

struct Worker {
    tx: Sender<Cmd>,
    rx: Receiver<Reply>,
    handle: Option<std::thread::JoinHandle<()>>,
}

type Shared = std::sync::Arc<Vec<std::sync::Mutex<ParsedPacket>>>;

fn spawn_worker(shared: Shared) -> Worker {
    let (tx, crx) = channel::<Cmd>();
    let (rtx, rx) = channel::<Reply>();
    let handle = std::thread::Builder::new().stack_size(256 * 1024).spawn(move || {
        let table = fn_table();
        let mut pp = DNSSector::new(gens::golden_packets()[0].clone()).unwrap().parse().unwrap();
        let mut err: *const CErr = std::ptr::null();
        let mut keep = Keep::default();
        // the description "stays intact until that thread's next failure": the pointer handed out at
        // the first read after a failure is kept and re-read at every later read
        let mut kept: *const libc::c_char = std::ptr::null();
        while let Ok(cmd) = crx.recv() {
            match cmd {
                Cmd::Fail(k, which) => {
                    let rc = match which {
                        Some(i) => {
                            // a packet handed from thread to thread (the schedule is lock-step, the mutex is never contended)
                            let mut g = shared[i % shared.len()].lock().unwrap();
                            fail_call(&table, &mut g, k, &mut err, &mut keep)
                        }
                        None => fail_call(&table, &mut pp, k, &mut err, &mut keep),
                    };
                    kept = std::ptr::null();
                    let _ = rtx.send(Reply::Failed(rc));
                }
                Cmd::Read => {
                    let d = if err.is_null() {
                        (None, None)
                    } else {
                        unsafe {
                            let p = (table.error_description)(err);
                            if kept.is_null() {
                                kept = p;
                            }
                            (Some(CStr::from_ptr(p).to_string_lossy().into_owned()), Some(CStr::from_ptr(kept).to_string_lossy().into_owned()))
                        }
                    };
                    let _ = rtx.send(Reply::Desc(d.0, d.1));
                }
                Cmd::Quit => break,
            }
        }
    }).expect("spawn");
    Worker { tx, rx, handle: Some(handle) }
}

impl Drop for Worker {
    fn drop(&mut self) {
        let _ = self.tx.send(Cmd::Quit);
        if let Some(h) = self.handle.take() {
            let _ = h.join();
        }
    }
}

/// A schedule: (thread, step) with step < FAIL_KINDS = fail of that kind, == FAIL_KINDS = read.
pub struct Arena {
    workers: Vec<Worker>,
    /// model: per-thread last failure kind
    last: Vec<Option<usize>>,
    /// global sequence number of each thread's last failure and of the latest failure overall
    last_seq: Vec<u64>,
    seq: u64,
    desc: Vec<String>,
}

impl Arena {
    pub fn new(n: usize) -> Arena {
        let mk = || std::sync::Mutex::new(DNSSector::new(gens::golden_packets()[0].clone()).unwrap().parse().unwrap());
        let shared: Shared = std::sync::Arc::new(vec![mk(), mk()]);
        Arena { workers: (0..n).map(|_| spawn_worker(shared.clone())).collect(), last: vec![None; n], last_seq: vec![0; n], seq: 0, desc: native_descriptions() }
    }

    /// Executes the schedule exactly (lock-step through the channels). Returns the number of
    /// non-trivial reads (the reading thread's last failure precedes another thread's failure).
    pub fn run(&mut self, sched: &[(usize, usize)]) -> Result<usize, Failure> {
        let mut nontrivial = 0;
        for (i, &(t, step)) in sched.iter().enumerate() {
            let w = &self.workers[t];
            if step != FAIL_KINDS {
                // steps above FAIL_KINDS: the same failure kinds on one of the two shared packets
                let (kind, which) = if step < FAIL_KINDS { (step, None) } else { ((step - FAIL_KINDS - 1) % FAIL_KINDS, Some((step - FAIL_KINDS - 1) / FAIL_KINDS)) };
                let step = kind;
                w.tx.send(Cmd::Fail(kind, which)).map_err(|_| Failure::new("C16 worker-died", "send"))?;
                match w.rx.recv() {
                    Ok(Reply::Failed(rc)) => {
                        ensure!(rc == -1, "C16 failing-call-did-not-return-minus-one", "kind {} returned {}", step, rc);
                    }
                    _ => fail!("C16 worker-died", "a table call crashed the worker thread (schedule {:?}, step {})", sched, i),
                }
                self.seq += 1;
                self.last[t] = Some(step);
                self.last_seq[t] = self.seq;
            } else {
                w.tx.send(Cmd::Read).map_err(|_| Failure::new("C16 worker-died", "send"))?;
                match w.rx.recv() {
                    Ok(Reply::Desc(got, kept)) => {
                        let want = self.last[t].map(|k| self.desc[k].clone());
                        ensure!(
                            kept == want,
                            "C16 retrieved-description-did-not-stay-intact",
                            "thread {}: the description pointer retrieved earlier now reads {:?}, its most recent failure is {:?} (schedule {:?}, step {})",
                            t,
                            kept,
                            want,
                            sched,
                            i
                        );
                        ensure!(
                            got == want,
                            "C16 description-not-private-to-thread",
                            "thread {} reads {:?} but its most recent failure is {:?} (schedule {:?}, step {})",
                            t,
                            got,
                            want,
                            sched,
                            i
                        );
                        if want.is_some() && self.last_seq[t] < self.seq {
                            nontrivial += 1;
                        }
                    }
                    _ => fail!("C16 worker-died", "error_description crashed the worker thread (schedule {:?}, step {})", sched, i),
                }
            }
        }
        Ok(nontrivial)
    }
}

thread_local! {
    static ARENA: std::cell::RefCell<Option<Arena>> = const { std::cell::RefCell::new(None) };
}

fn c16_case(data: &[u8], st: &mut Stats) -> PResult {
    let mut src = Src::new(data);
    let n = src.range(3, 4);
    let len = src.range(1, 40);
    let sched: Vec<(usize, usize)> = (0..len)
        .map(|_| {
            let t = src.below(n);
            let step = if src.chance(110) {
                FAIL_KINDS
            } else {
                let k = src.below(FAIL_KINDS);
                // packet-level failures (add_to_answer, add_to_question, rename) sometimes on a packet shared by all threads
                if matches!(k, 2 | 3 | 6 | 7 | 12) && src.chance(128) {
                    FAIL_KINDS + 1 + k + FAIL_KINDS * src.below(2)
                } else {
                    k
                }
            };
            (t, step)
        })
        .collect();
    // the schedule threads persist across cases of this proptest worker (the model persists with them)
    let nt = ARENA.with(|a| {
        let mut a = a.borrow_mut();
        if a.is_none() {
            *a = Some(Arena::new(4));
        }
        let r = a.as_mut().unwrap().run(&sched);
        if r.is_err() {
            *a = None; // a crashed or confused worker set is not reused
        }
        r
    })?;
    st.class(&format!("threads:{}", n));
    if nt > 0 {
        st.class("read-after-foreign-failure");
        st.nontrivial(&sched);
        if st.wants_sample(&format!("threads:{}", n)) {
            st.sample(&format!("threads:{}", n), json!({"schedule (thread, step: 0..12 = failure kind on the thread's own packet, 13 = read, 14.. = failure kind on a shared packet)": sched}));
        }
    }
    Ok(())
}

pub fn replay_c16(data: &[u8]) -> PResult {
    c16_case(data, &mut Stats::default())
}

pub fn check_c16(ctx: &Ctx, known: &KnownFindings) -> Report {
    let mut rep = Report::new("C16");
    let ks = known_sigs(known, "C16");
    let maxlen = if ctx.tier == Tier::Thorough { 8 } else { 6 };
    // counter wrap: a thread fails and reads, exactly N failures happen on another thread, the first
    // thread fails again (another kind) and reads: N around 2^8 and 2^16 (a serial number or slot index
    // kept in a narrow integer comes round to the same value)
    {
        let mut gaps: Vec<usize> = vec![254, 255, 256, 257, 65534, 65535, 65536, 65537];
        if ctx.tier == Tier::Thorough {
            gaps.extend([65530, 65531, 65532, 65533, 65538, 131070, 131071, 131072, 131073]);
        }
        let r = catch(|| -> PResult {
            for &n in &gaps {
                let mut arena = Arena::new(2);
                let mut sched: Vec<(usize, usize)> = vec![(0, 0), (0, FAIL_KINDS)];
                sched.extend(std::iter::repeat((1usize, 1usize)).take(n));
                sched.extend([(0, 4), (0, FAIL_KINDS), (1, FAIL_KINDS)]);
                arena.run(&sched).map_err(|f| Failure::new(f.sig, format!("after exactly {} failures on the other thread: {}", n, f.detail.chars().take(600).collect::<String>())))?;
            }
            Ok(())
        });
        rep.stats.class("foreign-failures-between:2^8,2^16");
        rep.stats.evals += gaps.len() as u64;
        rep.direct("counter wrap", r, &ks);
    }
    // many live threads: 70 threads fail once, then each fails again in turn while all others re-read
    {
        let n = 70;
        let r = catch(|| -> PResult {
            let mut arena = Arena::new(n);
            let mut sched: Vec<(usize, usize)> = (0..n).map(|t| (t, 0)).collect();
            for t in 0..n {
                sched.push((t, 2));
                for u in 0..n {
                    sched.push((u, FAIL_KINDS));
                }
            }
            arena.run(&sched).map(|_| ())
        });
        rep.stats.class("many-live-threads:70");
        rep.direct("70 live threads", r, &ks);
    }
    // 300 short-lived threads each fail once while one early thread keeps (and re-reads) its description
    {
        let r = catch(|| -> PResult {
            let mut keeper = Arena::new(1);
            keeper.run(&[(0, 4), (0, FAIL_KINDS)])?;
            for batch in 0..10 {
                let mut a = Arena::new(30);
                // every thread of the batch fails once (its first failure comes after earlier threads have
                // exited), then every thread reads, then they fail and read in the opposite order
                let mut sched: Vec<(usize, usize)> = (0..30).map(|t| (t, (t + batch) % 4)).collect();
                sched.extend((0..30).map(|t| (t, FAIL_KINDS)));
                sched.extend((0..30).rev().map(|t| (t, (t + batch + 1) % 4)));
                sched.extend((0..30).map(|t| (t, FAIL_KINDS)));
                a.run(&sched)?;
                drop(a);
                keeper.run(&[(0, FAIL_KINDS)])?;
            }
            keeper.run(&[(0, FAIL_KINDS)]).map(|_| ())
        });
        rep.stats.class("short-lived-threads:300");
        rep.direct("300 short-lived failing threads", r, &ks);
    }
    // the stages above run one schedule at a time; the ones below run several arenas concurrently, where a
    // library that shares state between threads may kill the process (a panic inside extern "C" aborts):
    // what was found so far is reported first
    if rep.founds.iter().any(|f| !f.failure.sig.starts_with("HARNESS:")) {
        rep.stats.class("stopped-after-sequential-stages");
        finish_c16_texts(&mut rep);
        return rep;
    }
    // exhaustive: 2 threads x {fail kind 0, fail kind 2, read}; all schedules up to maxlen
    // ... and the same with the two longest descriptions (kinds 3, 7) and two payload-free error kinds (8, 9), one step shorter
    let groups = ctx.threads.max(1).min(8);
    let results: std::sync::Mutex<(u64, u64, Vec<Failure>)> = std::sync::Mutex::new((0, 0, vec![]));
    for (ka, kb, maxlen) in [(0usize, 2usize, maxlen), (3, 7, maxlen - 1), (8, 9, maxlen - 1)] {
    let symbols: Vec<(usize, usize)> = vec![(0, ka), (0, kb), (0, FAIL_KINDS), (1, ka), (1, kb), (1, FAIL_KINDS)];
    std::thread::scope(|s| {
        for g in 0..groups {
            let symbols = &symbols;
            let results = &results;
            s.spawn(move || {
                let mut arena = Arena::new(2);
                let mut n = 0u64;
                let mut nt = 0u64;
                let mut fails = vec![];
                for len in 1..=maxlen {
                    let total = (symbols.len() as u64).pow(len as u32);
                    let mut idx = g as u64;
                    while idx < total {
                        let mut sched = Vec::with_capacity(len);
                        let mut x = idx;
                        for _ in 0..len {
                            sched.push(symbols[(x % symbols.len() as u64) as usize]);
                            x /= symbols.len() as u64;
                        }
                        n += 1;
                        match arena.run(&sched) {
                            Ok(k) => {
                                if k > 0 {
                                    nt += 1;
                                }
                            }
                            Err(f) => {
                                if fails.len() < 2 {
                                    fails.push(f);
                                }
                                // a crashed worker cannot be reused
                                arena = Arena::new(2);
                            }
                        }
                        idx += groups as u64;
                    }
                }
                let mut r = results.lock().unwrap();
                r.0 += n;
                r.1 += nt;
                r.2.extend(fails);
            });
        }
    });
    }
    let (n, nt, fails) = results.into_inner().unwrap();
    rep.stats.evals += n;
    rep.counted_nontrivial = nt;
    rep.stats.class_n("exhaustive-schedules", n);
    for f in fails {
        rep.direct("exhaustive schedule", Ok(Err(f)), &ks);
    }
    rep.exhaustive = Some(true);
    rep.extra.insert("exhaustive_subspace".into(), json!(format!("all schedules of length 1..{} over 2 threads x {{fail(name conversion), fail(record text), read}}, and of length 1..{} over 2 threads x {{fail(second question), fail(rename to root), read}} and x {{fail(packet too large), fail(void record), read}} = {} schedules, executed in lock-step", maxlen, maxlen - 1, n)));
    rep.stats.sample("exhaustive", json!({"schedule": "[(0,fail0),(1,fail2),(0,read)]", "expected": "thread 0 reads the name-conversion failure"}));
    let prop = (200usize, c16_case);
    let r = drive(&prop, ctx.cases(20_000, 400_000), ctx, 16, &ks);
    rep.absorb(r);
    finish_c16_texts(&mut rep);
    rep
}

fn finish_c16_texts(rep: &mut Report) {
    rep.rule = "schedules = sequences of (thread, fail_k | read) executed exactly: each schedule thread is an OS thread that performs one table call per command received over a channel and replies before the next command is issued (the harness owns the interleaving). fail_k are thirteen failing table calls (raw_name_from_str x4, add_to_answer with unparsable text / text that is not UTF-8 / at the 8192-byte limit, add_to_question, rename_with_raw_names with an empty / a root target, and inside an iter_answer callback a second delete and set_raw_name with a malformed / a compressed name) covering payload-free error kinds (Parse error, Packet too large, Void record), payload-carrying ones and the two descriptions longer than 64 bytes; read = error_description(err) with that thread's err pointer. Oracle: model of per-thread last failure (descriptions taken from the native API); every read returns it. Exhaustive for 2 threads x 2 failure kinds x read up to the stated length, for three pairs of kinds (short payload-carrying, the two longest descriptions, two payload-free kinds); random for 3-4 threads, length <= 40, packet-level failures on the thread's own packet or on one of two packets handed between the threads; one deterministic schedule with 70 live threads; one with 300 short-lived threads in batches of 30 (each batch: all fail, all read, all fail again in the opposite order, all read) while an early thread keeps re-reading its description; schedules with exactly 254..257 and 65534..65537 failures on another thread between a thread's read and its next failure. Non-trivial: a read whose thread's last failure precedes a failure on another thread.".into();
    rep.assumptions = vec!["interleavings are explored at the granularity of whole table calls (the property's own granularity); interleavings inside throw_err are not".into(), "a read before the thread's first failure is not judged (err pointer still NULL)".into()];
    rep.require(&["exhaustive-schedules", "threads:3", "threads:4", "read-after-foreign-failure", "many-live-threads:70", "short-lived-threads:300", "foreign-failures-between:2^8,2^16"]);
}

// ---------------------------------------------------------------------------
// C17
// ---------------------------------------------------------------------------

#[derive(Clone, Debug, PartialEq, Eq, Hash)]
pub enum Call {
    Parse(Vec<u8>),
    Uncompress(Vec<u8>),
    Compress(Vec<u8>),
    Rename(Vec<u8>, Vec<u8>, Vec<u8>, bool),
    Synth(String),
    /// parse the packet, insert_rr_from_string into section 1..3: the packet afterwards, or the error
    InsertText(Vec<u8>, u8, String),
}

impl Call {
    fn kind(&self) -> u8 {
        match self {
            Call::Parse(_) => 0,
            Call::Uncompress(_) => 1,
            Call::Compress(_) => 2,
            Call::Rename(..) => 3,
            Call::Synth(_) => 4,
            Call::InsertText(..) => 5,
        }
    }
}

/// Canonical outcome of a call: Ok bytes / object fields, or the error text.
pub fn eval_call(c: &Call) -> Vec<u8> {
    let r = catch(|| -> Result<Vec<u8>, String> {
        match c {
            Call::Parse(b) => {
                let p = DNSSector::new(b.clone()).and_then(|d| d.parse()).map_err(|e| e.to_string())?;
                let mut v = p.packet.clone().unwrap_or_default();
                v.extend(format!("|{:?}|{:?}|{:?}|{:?}|{:?}|{}|{:?}|{:?}|{:?}|{}|{}", p.offset_question, p.offset_answers, p.offset_nameservers, p.offset_additional, p.offset_edns, p.edns_count, p.ext_rcode, p.edns_version, p.ext_flags, p.maybe_compressed, p.max_payload).into_bytes());
                Ok(v)
            }
            Call::Uncompress(b) => Compress::uncompress(b).map_err(|e| e.to_string()),
            Call::Compress(b) => Compress::compress(b).map_err(|e| e.to_string()),
            Call::Rename(b, t, s, sfx) => {
                let mut p = DNSSector::new(b.clone()).and_then(|d| d.parse()).map_err(|e| e.to_string())?;
                Renamer::rename_with_raw_names(&mut p, t, s, *sfx).map_err(|e| e.to_string())
            }
            Call::Synth(t) => dgen::RR::from_string(t).map(|rr| rr.packet).map_err(|e| e.to_string()),
            Call::InsertText(b, sec, t) => {
                let mut p = DNSSector::new(b.clone()).and_then(|d| d.parse()).map_err(|e| e.to_string())?;
                let section = match sec {
                    1 => dnssector::constants::Section::Answer,
                    2 => dnssector::constants::Section::NameServers,
                    _ => dnssector::constants::Section::Additional,
                };
                p.insert_rr_from_string(section, t).map_err(|e| e.to_string())?;
                Ok(p.packet.clone().unwrap_or_default())
            }
        }
    });
    match r {
        Ok(Ok(mut v)) => {
            v.insert(0, b'O');
            v
        }
        Ok(Err(e)) => format!("E{}", e).into_bytes(),
        Err(pm) => format!("P{}", panic_sig(&pm)).into_bytes(),
    }
}

fn gen_call(src: &mut Src) -> Call {
    let o = GenOpts { big: false, many: false, ..GenOpts::default() };
    match src.below(6) {
        5 => {
            let o2 = GenOpts { response: Some(true), max_small: 3, ..o.clone() };
            let (_, e) = gens::gen_packet(src, &o2);
            let tc = rrtext::gen_valid(src, &TextOpts { max_wire: 120, ..TextOpts::default() });
            let text = if src.chance(100) { rrtext::damage_text(src, &tc).0 } else { tc.text };
            Call::InsertText(e.bytes, src.range(1, 3) as u8, text)
        }
        0 => {
            let (b, _) = crate::props::parse_props::gen_input(src);
            Call::Parse(b)
        }
        1 => {
            let (_, e) = gens::gen_packet(src, &o);
            Call::Uncompress(e.bytes)
        }
        2 => {
            let (m, _) = crate::props::xform_props::gen_compress_message(src);
            Call::Compress(enc::encode(&m, Layout::Literal).bytes)
        }
        3 => {
            let (m, e) = gens::gen_packet(src, &o);
            let a = gen_rename_args(src, &m);
            let (mut t, mut sn) = (a.target.to_wire(), a.source.to_wire());
            if src.chance(50) {
                // an argument the renamer must refuse - every time it is asked
                let which = if src.chance(128) { &mut t } else { &mut sn };
                match src.below(5) {
                    0 => which.push(1),
                    1 => {
                        if which.len() > 2 {
                            which[1] = b'.';
                        }
                    }
                    2 => *which = vec![1, b'a', 0xc0, 0x0c],
                    3 => which.clear(),
                    _ => {
                        which.pop();
                    }
                }
            }
            Call::Rename(e.bytes, t, sn, a.suffix)
        }
        _ => {
            let tc = rrtext::gen_valid(src, &TextOpts::default());
            if src.chance(60) {
                Call::Synth(rrtext::damage_text(src, &tc).0)
            } else {
                Call::Synth(tc.text)
            }
        }
    }
}

fn vary_bytes(src: &mut Src, b: &[u8]) -> Vec<u8> {
    let mut v = b.to_vec();
    if v.is_empty() {
        return vec![0];
    }
    match src.below(6) {
        0 | 1 => {
            // ASCII case of one letter (or of all letters) after the header
            let letters: Vec<usize> = (12.min(v.len())..v.len()).filter(|&i| v[i].is_ascii_alphabetic()).collect();
            if letters.is_empty() {
                v[0] ^= 1;
            } else if src.chance(128) {
                let i = *src.pick(&letters);
                v[i] ^= 0x20;
            } else {
                for i in letters {
                    v[i] ^= 0x20;
                }
            }
        }
        2 => v[0] ^= 0x80,
        3 => {
            let i = src.below(v.len());
            v[i] ^= 1 << src.below(8);
        }
        4 => {
            let i = v.len() - 1;
            v[i] = v[i].wrapping_add(1);
        }
        _ => {
            // same length, same first and last bytes, middle byte changed
            let i = v.len() / 2;
            v[i] = v[i].wrapping_add(1);
        }
    }
    v
}

/// A call of the same function whose input differs from `c`'s only slightly (ASCII case, one byte,
/// one flag): what a cache with a sloppy key would confuse with `c`.
fn vary_call(src: &mut Src, c: &Call) -> Call {
    match c {
        Call::Parse(b) => Call::Parse(vary_bytes(src, b)),
        Call::Uncompress(b) => Call::Uncompress(vary_bytes(src, b)),
        Call::Compress(b) => Call::Compress(vary_bytes(src, b)),
        Call::Rename(b, t, s, sfx) => match src.below(4) {
            0 => Call::Rename(b.clone(), t.clone(), s.clone(), !*sfx),
            1 => Call::Rename(b.clone(), t.iter().map(|&c| if c.is_ascii_alphabetic() { c ^ 0x20 } else { c }).collect(), s.clone(), *sfx),
            2 => Call::Rename(b.clone(), s.clone(), t.clone(), *sfx),
            _ => Call::Rename(vary_bytes(src, b), t.clone(), s.clone(), *sfx),
        },
        Call::InsertText(b, sec, t) => match src.below(3) {
            // the same text into another packet / section, or a near-variant of the text into the same packet
            0 => Call::InsertText(vary_bytes(src, b), *sec, t.clone()),
            1 => Call::InsertText(b.clone(), 1 + (*sec % 3), t.clone()),
            _ => match vary_call(src, &Call::Synth(t.clone())) {
                Call::Synth(t2) => Call::InsertText(b.clone(), *sec, t2),
                _ => c.clone(),
            },
        },
        Call::Synth(t) => {
            let flip = |c: char| if c.is_ascii_lowercase() { c.to_ascii_uppercase() } else { c.to_ascii_lowercase() };
            match src.below(4) {
                0 => Call::Synth(t.chars().map(flip).collect()),
                1 => {
                    // case of the owner name only
                    let cut = t.find(' ').unwrap_or(t.len());
                    Call::Synth(t[..cut].chars().map(flip).chain(t[cut..].chars()).collect())
                }
                2 => {
                    // case of the data only
                    let cut = t.rfind(' ').unwrap_or(0);
                    Call::Synth(t[..cut].chars().chain(t[cut..].chars().map(flip)).collect())
                }
                _ => {
                    // one digit changed
                    let mut cs: Vec<char> = t.chars().collect();
                    if let Some(i) = cs.iter().rposition(|c| c.is_ascii_digit()) {
                        cs[i] = if cs[i] == '1' { '2' } else { '1' };
                    }
                    Call::Synth(cs.into_iter().collect())
                }
            }
        }
    }
}

fn c17_case(data: &[u8], st: &mut Stats) -> PResult {
    let mut src = Src::new(data);
    let k = src.range(3, 8);
    let mut pool: Vec<Call> = vec![];
    // (original, variant) pool indices
    let mut pairs: Vec<(usize, usize)> = vec![];
    for i in 0..k {
        if i > 0 && src.chance(90) {
            let j = src.below(i);
            let v = vary_call(&mut src, &pool[j]);
            if v != pool[j] {
                pairs.push((j, i));
            }
            pool.push(v);
        } else {
            pool.push(gen_call(&mut src));
        }
    }
    // baseline: each call alone on a freshly spawned thread (fresh thread-locals)
    let baseline: Vec<Vec<u8>> = pool
        .iter()
        .map(|c| {
            let c = c.clone();
            std::thread::Builder::new().stack_size(512 * 1024).spawn(move || eval_call(&c)).expect("spawn").join().unwrap_or_else(|_| b"thread-died".to_vec())
        })
        .collect();
    // history on this thread
    let hlen = src.range(4, 24);
    let mut hist: Vec<usize> = (0..hlen).map(|_| src.below(k)).collect();
    // every near-variant directly after its original, and the original again
    // every call also twice in a row (a refusal must be repeated, a result reproduced)
    for i in 0..k {
        if src.chance(100) {
            hist.extend([i, i]);
            st.class(&format!("same-call-twice-in-a-row:kind{}", pool[i].kind()));
        }
    }
    for &(a, b) in &pairs {
        hist.extend([a, b, a]);
        st.class(&format!("variant-directly-after-original:kind{}", pool[a].kind()));
    }
    let mut prev_kind_input: Vec<Option<usize>> = vec![None; 6];
    for (i, &ix) in hist.iter().enumerate() {
        let got = eval_call(&pool[ix]);
        ensure!(
            got == baseline[ix],
            format!("C17 result-depends-on-history kind{}", pool[ix].kind()),
            "call #{} of the history ({:?} ...) returned a different result than the same call alone on a fresh thread; history indices {:?}; pool kinds {:?}\n alone: {}\n now:   {}",
            i,
            format!("{:?}", pool[ix]).chars().take(200).collect::<String>(),
            hist,
            pool.iter().map(|c| c.kind()).collect::<Vec<_>>(),
            hex_abbrev(&baseline[ix]),
            hex_abbrev(&got)
        );
        let kd = pool[ix].kind() as usize;
        if let Some(p) = prev_kind_input[kd] {
            if p != ix {
                st.nontrivial(&(pool[ix].clone(), pool[p].clone()));
                st.class(&format!("same-function-different-input:kind{}", kd));
            }
        }
        prev_kind_input[kd] = Some(ix);
    }
    // concurrently on several threads
    let nthreads = src.range(2, 6);
    let plans: Vec<Vec<usize>> = (0..nthreads).map(|_| (0..src.range(4, 16)).map(|_| src.below(k)).collect()).collect();
    let barrier = std::sync::Barrier::new(nthreads);
    let bad: std::sync::Mutex<Option<(usize, usize)>> = std::sync::Mutex::new(None);
    std::thread::scope(|s| {
        for (t, plan) in plans.iter().enumerate() {
            let (pool, baseline, barrier, bad) = (&pool, &baseline, &barrier, &bad);
            s.spawn(move || {
                barrier.wait();
                for &ix in plan {
                    if eval_call(&pool[ix]) != baseline[ix] {
                        *bad.lock().unwrap() = Some((t, ix));
                        return;
                    }
                }
            });
        }
    });
    if let Some((t, ix)) = bad.into_inner().unwrap() {
        fail!(format!("C17 result-depends-on-concurrent-calls kind{}", pool[ix].kind()), "thread {} got a different result for pool entry {} while {} threads ran plans {:?}", t, ix, nthreads, plans);
    }
    st.class(&format!("threads:{}", nthreads));
    if st.wants_sample("pool") {
        st.sample("pool", json!({"pool": pool.iter().map(|c| format!("{:?}", c).chars().take(120).collect::<String>()).collect::<Vec<_>>(), "history": hist, "concurrent_plans": plans}));
    }
    Ok(())
}

pub fn replay_c17(data: &[u8]) -> PResult {
    c17_case(data, &mut Stats::default())
}

pub fn check_c17(ctx: &Ctx, known: &KnownFindings) -> Report {
    let mut rep = Report::new("C17");
    let ks = known_sigs(known, "C17");
    rep.rule = "pools of 3..8 calls over {DNSSector::parse, Compress::uncompress, Compress::compress, Renamer::rename_with_raw_names, RR::from_string, parse + insert_rr_from_string} on generated inputs (valid, damaged, raw; about a third of the pool entries are near-variants of an earlier entry: ASCII case of one or all letters, one byte or bit, the suffix flag, target and source swapped, one digit of a record text - and the history runs original, variant, original back to back; rename arguments are sometimes names the renamer must refuse; every call is also made twice in a row). Baseline: each call alone on a freshly spawned thread. Then a random history of 4..24 calls on one thread, then 2..6 threads running random plans concurrently behind a barrier: every evaluation must be byte-identical to the baseline (Ok bytes and object fields, or the same error text). ParsedPacket::empty()/gen::query are compared with the id masked and the id is checked to vary. Non-trivial: an evaluation preceded on its thread by a call of the same function on a different input; distinct = hash of the (call, previous call) pair.".into();
    rep.assumptions = vec!["the concurrent half is a stress differential: the library shares no memory between threads, so there is no schedule for the harness to control".into()];
    // the one permitted randomness
    let r = catch(|| -> PResult {
        let mut ids = std::collections::BTreeSet::new();
        let mut first: Option<Vec<u8>> = None;
        for _ in 0..64 {
            let p = ParsedPacket::empty();
            let mut b = p.packet.clone().unwrap();
            ids.insert((b[0], b[1]));
            b[0] = 0;
            b[1] = 0;
            match &first {
                None => first = Some(b),
                Some(f) => ensure!(*f == b, "C17 empty-packet-differs-beyond-id", "{} vs {}", hex(f), hex(&b)),
            }
            let q = dgen::query(b"example.com", dnssector::constants::Type::A, dnssector::constants::Class::IN).map_err(|e| Failure::new("C17 query-fails", e.to_string()))?;
            let qb = q.packet.clone().unwrap();
            let want = Message { id: q.tid(), flags: 0x0100, qd: vec![Question { name: Name::from_dotted("example.com"), qtype: 1, qclass: 1 }], ..Default::default() };
            let d = refdec::decode_strict(&qb).ok_or_else(|| Failure::new("C17 query-packet-not-well-formed", hex(&qb)))?;
            ensure!(d.msg == want, "C17 query-packet-differs", "{}", want.diff(&d.msg, false));
        }
        ensure!(ids.len() >= 2, "C17 transaction-id-does-not-vary", "64 empty packets all had id {:?}", ids);
        Ok(())
    });
    rep.direct("empty-packet-id", r, &ks);
    let prop = (6000usize, c17_case);
    let r = drive(&prop, ctx.cases(6_000, 150_000), ctx, 17, &ks);
    rep.absorb(r);
    let mut req: Vec<String> = (0..6).map(|k| format!("same-function-different-input:kind{}", k)).collect();
    req.extend((0..6).map(|k| format!("variant-directly-after-original:kind{}", k)));
    req.extend((0..6).map(|k| format!("same-call-twice-in-a-row:kind{}", k)));
    req.push("threads:2".into());
    req.push("threads:6".into());
    rep.required.extend(req);
    rep
}

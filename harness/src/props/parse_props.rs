//! C01 (parsing is total) and C02 (accepts exactly the well-formed packets).

use crate::gens::{self, GenOpts};
use crate::model::*;
use crate::props::known_sigs;
use crate::refdec::{self, Verdict};
use crate::runner::*;
use crate::src::Src;
use dnssector::{verif_hooks, Compress, DNSSector};
use serde_json::json;

#[derive(Clone, Debug)]
pub enum Origin {
    Valid,
    Damaged(Vec<&'static str>),
    Raw,
    Long,
}

impl Origin {
    pub fn tag(&self) -> String {
        match self {
            Origin::Valid => "valid".into(),
            Origin::Damaged(v) => format!("damaged:{}", v.join("+")),
            Origin::Raw => "raw".into(),
            Origin::Long => "long".into(),
        }
    }
}

thread_local! {
    /// model and offset map of the last by-construction-valid packet produced by `gen_input`
    /// (generator-soundness self-check in C02)
    pub static LAST_VALID: std::cell::RefCell<Option<(Message, crate::enc::Encoded)>> = const { std::cell::RefCell::new(None) };
}

/// The shared input stream of C01/C02/C18: valid packets, damaged packets,
/// raw strings, long strings.
pub fn gen_input(src: &mut Src) -> (Vec<u8>, Origin) {
    match src.weighted(&[5, 12, 3, 1]) {
        0 => {
            let (m, e) = gens::gen_packet(src, &GenOpts::default());
            let bytes = e.bytes.clone();
            LAST_VALID.with(|l| *l.borrow_mut() = Some((m, e)));
            (bytes, Origin::Valid)
        }
        1 => {
            let o = GenOpts { big: false, many: false, ..GenOpts::default() };
            let (m, e) = gens::gen_packet(src, &o);
            let mut b = e.bytes.clone();
            let k = src.weighted(&[6, 2, 1]) + 1;
            let mut names = vec![];
            for _ in 0..k {
                names.push(gens::damage(src, &m, &e, &mut b));
            }
            (b, Origin::Damaged(names))
        }
        2 => {
            // raw bytes, biased to short; optionally with a plausible header
            let n = match src.weighted(&[6, 3, 1]) {
                0 => src.below(41),
                1 => src.below(200),
                _ => src.below(1200),
            };
            let mut b = src.bytes(n);
            if src.chance(128) && b.len() >= 12 {
                b[4] = 0;
                b[5] = 1;
                for i in 6..12 {
                    if i % 2 == 0 {
                        b[i] = 0;
                    } else {
                        b[i] &= 3;
                    }
                }
            }
            (b, Origin::Raw)
        }
        _ => {
            // long strings up to 70000 bytes: a valid head followed by a repeated pattern
            let total = *src.pick(&[70000usize, 65535, 65536, 66000, 20000, 8193]);
            let (_m, e) = gens::gen_packet(src, &GenOpts { big: false, many: false, ..GenOpts::default() });
            let mut b = e.bytes;
            let pl = src.range(1, 16);
            let pat = src.bytes(pl);
            while b.len() < total {
                let k = (total - b.len()).min(pat.len());
                b.extend_from_slice(&pat[..k]);
            }
            if src.chance(128) && b.len() >= 12 {
                // make the tail one big opaque record so that the parser has to walk it
                // (arcount += 1, record header placed at the junction is left to chance)
                let ar = ((b[10] as u16) << 8 | b[11] as u16).wrapping_add(1);
                b[10] = (ar >> 8) as u8;
                b[11] = ar as u8;
            }
            (b, Origin::Long)
        }
    }
}

pub fn lib_parse(bytes: &[u8]) -> Result<Result<dnssector::ParsedPacket, String>, String> {
    crate::history::fire_if_armed(bytes);
    let v = bytes.to_vec();
    let limit = 64 * bytes.len() as u64 + 4096;
    verif_hooks::reset();
    verif_hooks::set_limit(limit);
    let r = catch(|| DNSSector::new(v).and_then(|d| d.parse()).map_err(|e| e.to_string()));
    verif_hooks::set_limit(u64::MAX);
    r
}

fn progressed(bytes: &[u8]) -> bool {
    // non-trivial: header present, one question, and the reference decoder got past the question
    if bytes.len() < 12 || bytes[4] != 0 || bytes[5] != 1 {
        return false;
    }
    match refdec::decode(bytes, refdec::Opts::default()) {
        Ok(_) => true,
        Err(r) => !matches!(
            r.clause,
            "header-shorter-than-12" | "no-question" | "more-than-one-question" | "question-fixed-part-truncated" | "question-class-not-IN"
        ) && r.at > 12,
    }
}

fn c01_case(data: &[u8], st: &mut Stats) -> PResult {
    let mut src = Src::new(data);
    crate::history::case(&mut src, st, 6, c01_body)
}

fn c01_body(src: &mut Src, st: &mut Stats) -> PResult {
    let mut src = src.fork();
    if src.weighted(&[5, 3]) == 0 {
        let (bytes, origin) = gen_input(&mut src);
        let tag = origin.tag();
        let head = tag.split(':').next().unwrap().to_string();
        st.class(&format!("parse:{}", head));
        match lib_parse(&bytes) {
            Err(pm) => {
                let what = if pm.contains("fuel exhausted") { "parse-fuel-exhausted" } else { "parse-panic" };
                fail!(format!("C01 {} {}", what, panic_sig(&pm)), "origin={} panic={} input={}", tag, pm, hex_abbrev(&bytes));
            }
            Ok(Ok(p)) => {
                st.class("parse:ok");
                ensure!(
                    p.packet.as_deref() == Some(&bytes[..]),
                    "C01 parsed-packet-bytes-differ",
                    "origin={} input={}",
                    tag,
                    hex_abbrev(&bytes)
                );
            }
            Ok(Err(_)) => st.class("parse:err"),
        }
        if bytes.len() > 65535 {
            st.class("parse:len>65535");
        }
        if bytes.len() > 8192 {
            st.class("parse:len>8192");
        }
        if progressed(&bytes) {
            st.nontrivial(&bytes);
            if st.wants_sample(&format!("parse:{}", head)) {
                st.sample(&format!("parse:{}", head), json!({"origin": tag, "len": bytes.len(), "input": hex_abbrev(&bytes)}));
            }
        }
        Ok(())
    } else {
        // primitives
        let (bytes, origin) = gen_input(&mut src);
        let len = bytes.len();
        st.class("prim");
        let offs = {
            let mut v: Vec<usize> = vec![0, 1, 11, 12, 13];
            v.extend([len.wrapping_sub(1), len, len + 1, len + 2, usize::MAX, usize::MAX - 1]);
            v
        };
        let draw_off = |src: &mut Src| -> usize {
            match src.below(3) {
                0 => *src.pick(&offs),
                1 => src.below(len + 3),
                _ => src.below(len.min(64) + 1),
            }
        };
        let nops = src.range(1, 12);
        let mut ds = match DNSSector::new(bytes.clone()) {
            Ok(d) => d,
            Err(_) => return Ok(()),
        };
        let mut model_off = 0usize;
        let mut trace = vec![];
        for _ in 0..nops {
            match src.below(6) {
                0 => {
                    let o = draw_off(&mut src);
                    trace.push(format!("set_offset({})", o));
                    let r = catch(|| ds.set_offset(o).map_err(|e| e.to_string()));
                    match r {
                        Err(pm) => fail!(format!("C01 set_offset-panic {}", panic_sig(&pm)), "trace={:?} panic={} buf={}", trace, pm, hex_abbrev(&bytes)),
                        Ok(Ok(prev)) => {
                            ensure!(o < len, "C01 set_offset-accepts-outside", "trace={:?} len={}", trace, len);
                            ensure!(prev == model_off, "C01 set_offset-returns-wrong-previous", "trace={:?} prev={} model={}", trace, prev, model_off);
                            model_off = o;
                        }
                        Ok(Err(_)) => ensure!(o >= len, "C01 set_offset-rejects-inside", "trace={:?} len={}", trace, len),
                    }
                }
                1 => {
                    let n = match src.below(4) {
                        0 => usize::MAX,
                        1 => len - model_off.min(len),
                        2 => (len - model_off.min(len)) + 1,
                        _ => src.below(len + 2),
                    };
                    trace.push(format!("increment_offset({})", n));
                    let r = catch(|| ds.increment_offset(n).map_err(|e| e.to_string()));
                    let remaining = len - model_off;
                    match r {
                        Err(pm) => fail!(format!("C01 increment_offset-panic {}", panic_sig(&pm)), "trace={:?} panic={} len={}", trace, pm, len),
                        Ok(Ok(prev)) => {
                            ensure!(n <= remaining, "C01 increment_offset-accepts-beyond-end", "trace={:?} len={}", trace, len);
                            ensure!(prev == model_off, "C01 increment_offset-returns-wrong-previous", "trace={:?}", trace);
                            model_off += n;
                        }
                        Ok(Err(_)) => ensure!(n > remaining, "C01 increment_offset-rejects-inside", "trace={:?} len={}", trace, len),
                    }
                }
                2 => {
                    trace.push("rr_rdlen()".into());
                    let r = catch(|| ds.rr_rdlen().map_err(|e| e.to_string()));
                    let remaining = len - model_off;
                    match r {
                        Err(pm) => fail!(format!("C01 rr_rdlen-panic {}", panic_sig(&pm)), "trace={:?} panic={} len={}", trace, pm, len),
                        Ok(Ok(v)) => {
                            ensure!(remaining >= 10, "C01 rr_rdlen-reads-outside", "trace={:?} len={}", trace, len);
                            let want = ((bytes[model_off + 8] as usize) << 8) | bytes[model_off + 9] as usize;
                            ensure!(v == want, "C01 rr_rdlen-wrong-value", "trace={:?} got={} want={}", trace, v, want);
                        }
                        Ok(Err(_)) => ensure!(remaining < 10, "C01 rr_rdlen-rejects-inside", "trace={:?} len={}", trace, len),
                    }
                }
                3 => {
                    trace.push("edns_rr_rdlen()".into());
                    if let Err(pm) = catch(|| ds.edns_rr_rdlen().map_err(|e| e.to_string())) {
                        fail!(format!("C01 edns_rr_rdlen-panic {}", panic_sig(&pm)), "trace={:?} panic={} len={}", trace, pm, len);
                    }
                }
                4 => {
                    let o = draw_off(&mut src);
                    trace.push(format!("check_compressed_name(buf,{})", o));
                    verif_hooks::reset();
                    verif_hooks::set_limit(64 * len as u64 + 4096);
                    let r = catch(|| Compress::check_compressed_name(&bytes, o).map_err(|e| e.to_string()));
                    verif_hooks::set_limit(u64::MAX);
                    match r {
                        Err(pm) => fail!(format!("C01 check_compressed_name-panic {}", panic_sig(&pm)), "trace={:?} panic={} buf={}", trace, pm, hex_abbrev(&bytes)),
                        Ok(Ok(end)) => ensure!(end <= len && end > o, "C01 check_compressed_name-end-outside", "trace={:?} end={} len={}", trace, end, len),
                        Ok(Err(_)) => {}
                    }
                }
                _ => {
                    let o = draw_off(&mut src);
                    trace.push(format!("check_uncompressed_name(buf,{})", o));
                    verif_hooks::reset();
                    verif_hooks::set_limit(64 * len as u64 + 4096);
                    let r = catch(|| DNSSector::check_uncompressed_name(&bytes, o).map_err(|e| e.to_string()));
                    verif_hooks::set_limit(u64::MAX);
                    match r {
                        Err(pm) => fail!(format!("C01 check_uncompressed_name-panic {}", panic_sig(&pm)), "trace={:?} panic={} buf={}", trace, pm, hex_abbrev(&bytes)),
                        Ok(Ok(end)) => ensure!(end <= len && end > o, "C01 check_uncompressed_name-end-outside", "trace={:?} end={} len={}", trace, end, len),
                        Ok(Err(_)) => {}
                    }
                }
            }
        }
        if len > 0 {
            st.nontrivial(&(bytes.clone(), trace.clone()));
            if st.wants_sample("prim") {
                st.sample("prim", json!({"origin": origin.tag(), "buf_len": len, "ops": trace}));
            }
        }
        Ok(())
    }
}

pub fn replay_c01(data: &[u8]) -> PResult {
    c01_case(data, &mut Stats::default())
}

/// The packets of the repository's own test-suite with the verdict each test asserts
/// (extracted by tools/extract_test_packets.py into harness/test_packets.txt).
pub fn repo_test_packets() -> Vec<(String, bool, Vec<u8>)> {
    include_str!("../../test_packets.txt")
        .lines()
        .filter_map(|l| {
            let mut it = l.split_whitespace();
            let name = it.next()?.to_string();
            let ok = it.next()? == "ok";
            let data = unhex(it.next().unwrap_or(""))?;
            Some((name, ok, data))
        })
        .collect()
}

/// Fixed regression inputs for C01/C02 (plain byte strings).
fn regression_inputs() -> Vec<(&'static str, Vec<u8>)> {
    let mut v: Vec<(&'static str, Vec<u8>)> = vec![("empty", vec![]), ("eleven", vec![0; 11]), ("twelve-zero", vec![0; 12])];
    let mut h = vec![0, 1, 1, 0, 0, 1, 0, 0, 0, 0, 0, 0];
    v.push(("header-only-qd1", h.clone()));
    h.push(0);
    v.push(("thirteen", h.clone()));
    // self pointer as question name
    v.push(("self-pointer", vec![0, 1, 1, 0, 0, 1, 0, 0, 0, 0, 0, 0, 0xc0, 12, 0, 1, 0, 1]));
    // two-pointer loop
    v.push(("loop2", vec![0, 1, 1, 0, 0, 1, 0, 0, 0, 0, 0, 0, 0xc0, 14, 0xc0, 12, 0, 1, 0, 1]));
    for (i, g) in gens::golden_packets().into_iter().enumerate() {
        v.push((if i == 0 { "golden-response" } else { "golden-query-opt" }, g));
    }
    v
}

pub fn check_c01(ctx: &Ctx, known: &KnownFindings) -> Report {
    let mut rep = Report::new("C01");
    let ks = known_sigs(known, "C01");
    rep.rule = "inputs: generated valid packets (all pointer layouts, OPT positions, sizes beyond 8192/65535), 1-3 damage operators on valid packets, raw strings, 70000-byte strings; plus sequences of cursor primitives and name-checker calls at boundary offsets. Oracle: no panic, fuel (64*len+4096 validator steps) not exhausted, Ok => packet bytes == input, set_offset/increment_offset/rr_rdlen Ok iff inside and return the modelled value. Non-trivial: >=12 bytes, qdcount=1 and the reference decoder got past the question; or a primitive sequence on a non-empty buffer. distinct = hash of input (+ op trace).".into();
    rep.assumptions = vec![
        "cursor moved through the API only (pub fields not written)".into(),
        "termination judged by a step-fuel limit in the verif_hooks counter, not by wall clock".into(),
    ];
    for (name, b) in regression_inputs() {
        let r = catch(|| -> PResult {
            match lib_parse(&b) {
                Err(pm) => fail!(format!("C01 parse-panic {}", panic_sig(&pm)), "regression {} panic={}", name, pm),
                Ok(Ok(p)) => ensure!(p.packet.as_deref() == Some(&b[..]), "C01 parsed-packet-bytes-differ", "regression {}", name),
                Ok(Err(_)) => {}
            }
            Ok(())
        });
        rep.direct(name, r, &ks);
    }
    let prop = (1200usize, c01_case);
    let r = drive(&prop, ctx.cases(2_000_000, 30_000_000), ctx, 1, &ks);
    rep.absorb(r);
    rep.require(&["parse:valid", "parse:damaged", "parse:raw", "parse:long", "parse:ok", "parse:err", "prim", "parse:len>65535"]);
    rep
}

// ---------------------------------------------------------------------------
// C02
// ---------------------------------------------------------------------------

pub const CLAUSES: &[&str] = &[
    "header-shorter-than-12",
    "no-question",
    "more-than-one-question",
    "question-fixed-part-truncated",
    "question-class-not-IN",
    "answer-or-authority-records-in-a-query",
    "record-fixed-part-truncated",
    "name-truncated",
    "pointer-truncated",
    "pointer-not-strictly-backward",
    "pointer-to-root-label",
    "too-many-pointers",
    "label-longer-than-63",
    "label-out-of-bounds",
    "name-longer-than-255",
    "forbidden-character-in-label",
    "pointer-in-pointer-free-name",
    "opt-outside-additional",
    "opt-owner-not-root",
    "second-opt",
    "opt-data-truncated",
    "option-header-overruns-opt-data",
    "option-data-overruns-opt-data",
    "name-rdata-empty",
    "name-rdata-not-exact",
    "mx-rdata-too-short",
    "mx-rdata-not-exact",
    "soa-rdata-too-short",
    "soa-rdata-not-exact",
    "dname-rdata-empty",
    "dname-rdata-not-exact",
    "a-rdata-not-4",
    "aaaa-rdata-not-16",
    "rdata-truncated",
    "trailing-bytes",
];

pub fn c02_compare(bytes: &[u8], origin: &str, st: &mut Stats) -> PResult {
    let lib = match lib_parse(bytes) {
        Err(pm) => fail!(format!("C02 parse-panic {}", panic_sig(&pm)), "origin={} panic={} input={}", origin, pm, hex_abbrev(bytes)),
        Ok(r) => r,
    };
    let v = refdec::verdict(bytes);
    match (&lib, v) {
        (Ok(_), Verdict::Accept) => st.class("accept"),
        (Err(_), Verdict::Reject(c)) => st.class(&format!("reject:{}", c)),
        (_, Verdict::Unspecified) => st.class(if lib.is_ok() { "unspecified:lib-accepts" } else { "unspecified:lib-rejects" }),
        (Ok(_), Verdict::Reject(c)) => {
            fail!(format!("C02 accepts-malformed {}", c), "origin={} reference rejects with {:?} but the parser accepts; input={}", origin, c, hex_abbrev(bytes));
        }
        (Err(e), Verdict::Accept) => {
            fail!(format!("C02 rejects-well-formed"), "origin={} reference accepts but the parser says {:?}; input={}", origin, e, hex_abbrev(bytes));
        }
    }
    Ok(())
}

fn c02_case(data: &[u8], st: &mut Stats) -> PResult {
    let mut src = Src::new(data);
    crate::history::case(&mut src, st, 6, c02_body)
}

fn c02_body(src: &mut Src, st: &mut Stats) -> PResult {
    let mut src = src.fork();
    if src.weighted(&[7, 2]) == 0 {
        let (bytes, origin) = gen_input(&mut src);
        let tag = origin.tag();
        if let Origin::Valid = origin {
            // third opinion: valid by construction
            match refdec::verdict(&bytes) {
                Verdict::Accept => {}
                v => fail!("HARNESS: generator/reference disagree", "generated-valid packet judged {:?} by the reference: {}", v, hex_abbrev(&bytes)),
            }
            // model -> encode -> decode must give back the model and the encoder's offset map
            let d = refdec::decode_strict(&bytes).unwrap();
            let chk: PResult = LAST_VALID.with(|l| {
                if let Some((m, e)) = l.borrow().as_ref() {
                    ensure!(d.msg == *m, "HARNESS: decode(encode(model)) differs from the model", "{}; packet={}", m.diff(&d.msg, false), hex_abbrev(&bytes));
                    let qo = d.q.as_ref().map(|q| (q.start, q.name_end, q.end));
                    let qe = e.q.as_ref().map(|q| (q.start, q.name_end, q.end));
                    ensure!(qo == qe, "HARNESS: question offsets differ between encoder and reference", "{:?} vs {:?}", qe, qo);
                    for s in 0..3 {
                        let a: Vec<_> = d.recs[s].iter().map(|r| (r.start, r.name_end, r.rdata_start, r.end)).collect();
                        let b: Vec<_> = e.recs[s].iter().map(|r| (r.start, r.name_end, r.rdata_start, r.end)).collect();
                        ensure!(a == b, "HARNESS: record offsets differ between encoder and reference", "section {}: {:?} vs {:?}", s + 1, b, a);
                    }
                }
                Ok(())
            });
            chk?;
            st.class("self-check:model-encode-decode");
        }
        c02_compare(&bytes, &tag, st)?;
        if bytes.len() >= 12 {
            st.nontrivial(&bytes);
        }
        let v = refdec::verdict(&bytes);
        let cls = match v {
            Verdict::Accept => "accept".to_string(),
            Verdict::Reject(c) => format!("reject:{}", c),
            Verdict::Unspecified => "unspecified".into(),
        };
        if st.wants_sample(&cls) {
            st.sample(&cls, json!({"origin": tag, "len": bytes.len(), "input": hex_abbrev(&bytes)}));
        }
        Ok(())
    } else {
        // name-level differential on the public name checkers
        let (bytes, _origin) = gen_input(&mut src);
        let len = bytes.len();
        let o = match src.below(3) {
            0 => src.below(len + 2),
            _ => {
                // a structural-looking offset: after the header, or any offset holding a small byte
                let cands: Vec<usize> = (0..len.min(2000)).filter(|&i| bytes[i] < 64 || bytes[i] >= 0xc0).collect();
                if cands.is_empty() {
                    0
                } else {
                    *src.pick(&cands)
                }
            }
        };
        let lib = catch(|| Compress::check_compressed_name(&bytes, o).map_err(|e| e.to_string()));
        let lib = match lib {
            Err(pm) => fail!(format!("C02 check_compressed_name-panic {}", panic_sig(&pm)), "off={} buf={}", o, hex_abbrev(&bytes)),
            Ok(r) => r,
        };
        match (refdec::walk_name(&bytes, o, true), &lib) {
            (Ok(n), Ok(end)) => {
                ensure!(n.end == *end, "C02 name-checker-wrong-end", "off={} ref end={} lib end={} buf={}", o, n.end, end, hex_abbrev(&bytes));
                st.class("name:accept");
            }
            (Ok(n), Err(e)) => {
                ensure!(n.quirk, "C02 name-checker-rejects-well-formed", "off={} lib={:?} buf={}", o, e, hex_abbrev(&bytes));
                st.class("name:unspecified");
            }
            (Err(r), Ok(_)) => fail!(format!("C02 name-checker-accepts-malformed {}", r.clause), "off={} ref={:?} buf={}", o, r, hex_abbrev(&bytes)),
            (Err(_), Err(_)) => st.class("name:reject"),
        }
        let lib2 = catch(|| DNSSector::check_uncompressed_name(&bytes, o).map_err(|e| e.to_string()));
        let lib2 = match lib2 {
            Err(pm) => fail!(format!("C02 check_uncompressed_name-panic {}", panic_sig(&pm)), "off={} buf={}", o, hex_abbrev(&bytes)),
            Ok(r) => r,
        };
        match (refdec::walk_name(&bytes, o, false), &lib2) {
            (Ok(n), Ok(end)) => {
                ensure!(n.end == *end, "C02 plain-name-checker-wrong-end", "off={} ref end={} lib end={}", o, n.end, end);
                st.class("plain-name:accept");
            }
            (Ok(_), Err(e)) => fail!("C02 plain-name-checker-rejects-well-formed", "off={} lib={:?} buf={}", o, e, hex_abbrev(&bytes)),
            (Err(r), Ok(_)) => fail!(format!("C02 plain-name-checker-accepts-malformed {}", r.clause), "off={} ref={:?} buf={}", o, r, hex_abbrev(&bytes)),
            (Err(_), Err(_)) => st.class("plain-name:reject"),
        }
        if o < len {
            st.nontrivial(&(bytes, o));
        }
        Ok(())
    }
}

pub fn replay_c02(data: &[u8]) -> PResult {
    c02_case(data, &mut Stats::default())
}

pub fn check_c02(ctx: &Ctx, known: &KnownFindings) -> Report {
    let mut rep = Report::new("C02");
    let ks = known_sigs(known, "C02");
    rep.rule = "same input stream as C01 (valid / damaged by 26 operators aimed at each policy clause / raw / long). Oracle: DNSSector::parse(x).is_ok() == reference recogniser verdict, both directions; by-construction-valid packets must be accepted by both; name checkers compared with the reference name walker incl. returned end offset. Per-clause classes: the run must see an accept and a reject for every clause of the policy. Non-trivial: input has a full header (or name-check offset inside the buffer); distinct = hash of input.".into();
    rep.assumptions = vec![
        "policy re-stated in refdec.rs from the property text; names whose later segment overruns or straddles the start of the previous segment are 'unspecified' and not compared".into(),
        "error kinds are not compared, only Ok/Err".into(),
    ];
    for (name, b) in regression_inputs() {
        let mut st = Stats::default();
        let r = catch(|| c02_compare(&b, name, &mut st));
        rep.direct(name, r, &ks);
    }
    // the 18 packets of tests/test_dnssector.rs: parser and reference must both give the verdict the test asserts
    for (name, expect, b) in repo_test_packets() {
        let mut st = Stats::default();
        let r = catch(|| -> PResult {
            let v = refdec::verdict(&b);
            ensure!(matches!(v, Verdict::Accept) == expect, "HARNESS: reference disagrees with the repository's test-suite", "test {} asserts accept={} but the reference says {:?}", name, expect, v);
            c02_compare(&b, &name, &mut st)
        });
        rep.stats.class("repo-test-packet");
        rep.direct(&name, r, &ks);
    }
    for (name, b, expect) in clause_pairs() {
        let mut st = Stats::default();
        let r = catch(|| -> PResult {
            let v = refdec::verdict(&b);
            ensure!(
                matches!(v, Verdict::Accept) == expect,
                "HARNESS: clause pair expectation",
                "pair {} expected accept={} but reference says {:?}",
                name,
                expect,
                v
            );
            c02_compare(&b, &name, &mut st)
        });
        rep.stats.class(if expect { "pair:inside" } else { "pair:outside" });
        rep.direct(&name, r, &ks);
    }
    let prop = (1200usize, c02_case);
    let r = drive(&prop, ctx.cases(2_000_000, 30_000_000), ctx, 2, &ks);
    rep.absorb(r);
    let mut req: Vec<String> = CLAUSES.iter().map(|c| format!("reject:{}", c)).collect();
    req.push("accept".into());
    req.push("self-check:model-encode-decode".into());
    req.push("name:accept".into());
    req.push("name:reject".into());
    req.push("plain-name:accept".into());
    req.push("plain-name:reject".into());
    rep.required.extend(req);
    rep
}

/// Hand-built boundary pairs: one packet just inside and one just outside each limit.
pub fn clause_pairs() -> Vec<(String, Vec<u8>, bool)> {
    let mut v: Vec<(String, Vec<u8>, bool)> = vec![];
    let hdr = |flags: u16, qd: u16, an: u16, ns: u16, ar: u16| -> Vec<u8> {
        let mut h = vec![0x12, 0x34];
        for x in [flags, qd, an, ns, ar] {
            h.extend_from_slice(&x.to_be_bytes());
        }
        h
    };
    let q = |name: &[u8]| -> Vec<u8> {
        let mut b = name.to_vec();
        b.extend_from_slice(&[0, 1, 0, 1]);
        b
    };
    let rr = |name: &[u8], t: u16, rd: &[u8]| -> Vec<u8> {
        let mut b = name.to_vec();
        b.extend_from_slice(&t.to_be_bytes());
        b.extend_from_slice(&[0, 1, 0, 0, 0, 60]);
        b.extend_from_slice(&(rd.len() as u16).to_be_bytes());
        b.extend_from_slice(rd);
        b
    };
    let cat = |parts: &[&[u8]]| -> Vec<u8> { parts.iter().flat_map(|p| p.iter().copied()).collect() };
    let qn = [1u8, b'a', 0];
    // label 63 / 64
    for (l, ok) in [(63usize, true), (64, false)] {
        let mut n = vec![l as u8];
        n.extend(std::iter::repeat(b'x').take(l));
        n.push(0);
        v.push((format!("label-{}", l), cat(&[&hdr(0x0100, 1, 0, 0, 0), &q(&n)]), ok));
    }
    // name 255 / 256
    for (total, ok) in [(255usize, true), (256, false)] {
        let mut n = vec![];
        let mut rem = total - 1;
        while rem > 0 {
            let l = if rem >= 64 { 63 } else { rem - 1 };
            n.push(l as u8);
            n.extend(std::iter::repeat(b'y').take(l));
            rem -= l + 1;
        }
        n.push(0);
        assert_eq!(n.len(), total);
        v.push((format!("name-{}", total), cat(&[&hdr(0x0100, 1, 0, 0, 0), &q(&n)]), ok));
    }
    // name 255 / 256 reached through a pointer
    for (extra, ok) in [(0usize, true), (1, false)] {
        // question name of 250 bytes; answer owner = label of (3+extra) data bytes + pointer => 250 + 4 + extra + ... = 255/256
        let mut n = vec![];
        let mut rem = 250 - 1;
        while rem > 0 {
            let l = if rem >= 64 { 63 } else { rem - 1 };
            n.push(l as u8);
            n.extend(std::iter::repeat(b'z').take(l));
            rem -= l + 1;
        }
        n.push(0);
        let mut owner = vec![(4 + extra) as u8];
        owner.extend(std::iter::repeat(b'p').take(4 + extra));
        owner.extend_from_slice(&[0xc0, 12]);
        v.push((format!("name-via-pointer-{}", 255 + extra), cat(&[&hdr(0x8100, 1, 1, 0, 0), &q(&n), &rr(&owner, 1, &[1, 2, 3, 4])]), ok));
    }
    // pointers 16 / 17
    for (k, ok) in [(16usize, true), (17, false)] {
        let mut b = cat(&[&hdr(0x8100, 1, (k + 1) as u16, 0, 0), &q(&qn)]);
        let mut prev = b.len();
        b.extend(rr(&[1, b'q', 0], 1, &[1, 2, 3, 4]));
        for _ in 0..k {
            let at = b.len();
            b.extend(rr(&[0xc0 | (prev >> 8) as u8, prev as u8], 1, &[1, 2, 3, 4]));
            prev = at;
        }
        v.push((format!("pointer-chain-{}", k), b, ok));
    }
    // pointer to start-1 / start / start+1
    for (d, ok) in [(-1i32, false), (0, false), (1, false)] {
        // answer owner at offset 17 (12 + 5): pointer to 17+d. 16 is the low byte of qclass (=1): label of length 1 -> reads byte 17.. messy => use explicit layout
        let b0 = cat(&[&hdr(0x8100, 1, 1, 0, 0), &q(&qn)]);
        let at = b0.len() as i32;
        let t = (at + d) as usize;
        let b = cat(&[&b0, &rr(&[0xc0 | (t >> 8) as u8, t as u8], 1, &[1, 2, 3, 4])]);
        // start-1 = low byte of qclass = 1 => label of 1 byte (0xc0) then next... not strictly predictable: use the reference's verdict for d=-1
        let expect = if d == -1 { matches!(refdec::verdict(&b), Verdict::Accept) } else { ok };
        v.push((format!("pointer-to-start{:+}", d), b, expect));
    }
    // pointer to the question name (fine) vs to its root label (rejected)
    for (t, ok) in [(12usize, true), (14, false)] {
        v.push((format!("pointer-target-{}", t), cat(&[&hdr(0x8100, 1, 1, 0, 0), &q(&qn), &rr(&[0xc0, t as u8], 1, &[1, 2, 3, 4])]), ok));
    }
    // forbidden / allowed characters
    for c in [0u8, 9, 0x1f, 0x7f, b'.', b'\\'] {
        v.push((format!("char-{:02x}", c), cat(&[&hdr(0x0100, 1, 0, 0, 0), &q(&[2, b'a', c, 0])]), false));
    }
    for c in [0x20u8, 0x7e, 0x80, 0xff, b'-', b'_', b'*'] {
        v.push((format!("char-{:02x}", c), cat(&[&hdr(0x0100, 1, 0, 0, 0), &q(&[2, b'a', c, 0])]), true));
    }
    // DNAME: any bytes allowed, pointer rejected
    v.push(("dname-any-bytes".into(), cat(&[&hdr(0x8100, 1, 1, 0, 0), &q(&qn), &rr(&[0xc0, 12], 39, &[3, b'.', 0, b'\\', 0])]), true));
    v.push(("dname-pointer".into(), cat(&[&hdr(0x8100, 1, 1, 0, 0), &q(&qn), &rr(&[0xc0, 12], 39, &[0xc0, 12])]), false));
    v.push(("dname-short".into(), cat(&[&hdr(0x8100, 1, 1, 0, 0), &q(&qn), &rr(&[0xc0, 12], 39, &[1, b'a', 0, 0])]), false));
    // A / AAAA exact
    for (l, ok) in [(3usize, false), (4, true), (5, false)] {
        v.push((format!("a-rdlen-{}", l), cat(&[&hdr(0x8100, 1, 1, 0, 0), &q(&qn), &rr(&[0xc0, 12], 1, &vec![7; l])]), ok));
    }
    for (l, ok) in [(15usize, false), (16, true), (17, false)] {
        v.push((format!("aaaa-rdlen-{}", l), cat(&[&hdr(0x8100, 1, 1, 0, 0), &q(&qn), &rr(&[0xc0, 12], 28, &vec![7; l])]), ok));
    }
    // NS exact / one byte over / under
    v.push(("ns-exact".into(), cat(&[&hdr(0x8100, 1, 1, 0, 0), &q(&qn), &rr(&[0xc0, 12], 2, &[1, b'n', 0xc0, 12])]), true));
    v.push(("ns-extra-byte".into(), cat(&[&hdr(0x8100, 1, 1, 0, 0), &q(&qn), &rr(&[0xc0, 12], 2, &[1, b'n', 0xc0, 12, 0])]), false));
    v.push(("ns-empty".into(), cat(&[&hdr(0x8100, 1, 1, 0, 0), &q(&qn), &rr(&[0xc0, 12], 2, &[])]), false));
    // MX
    v.push(("mx-exact".into(), cat(&[&hdr(0x8100, 1, 1, 0, 0), &q(&qn), &rr(&[0xc0, 12], 15, &[0, 10, 0xc0, 12])]), true));
    v.push(("mx-rdlen-2".into(), cat(&[&hdr(0x8100, 1, 1, 0, 0), &q(&qn), &rr(&[0xc0, 12], 15, &[0, 10])]), false));
    v.push(("mx-root".into(), cat(&[&hdr(0x8100, 1, 1, 0, 0), &q(&qn), &rr(&[0xc0, 12], 15, &[0, 10, 0])]), true));
    v.push(("mx-extra".into(), cat(&[&hdr(0x8100, 1, 1, 0, 0), &q(&qn), &rr(&[0xc0, 12], 15, &[0, 10, 0, 0])]), false));
    // SOA
    let soa_ok: Vec<u8> = cat(&[&[0xc0, 12], &[0], &[9u8; 20]]);
    v.push(("soa-exact".into(), cat(&[&hdr(0x8100, 1, 1, 0, 0), &q(&qn), &rr(&[0xc0, 12], 6, &soa_ok)]), true));
    v.push(("soa-19-fixed".into(), cat(&[&hdr(0x8100, 1, 1, 0, 0), &q(&qn), &rr(&[0xc0, 12], 6, &soa_ok[..soa_ok.len() - 1])]), false));
    v.push(("soa-21-fixed".into(), cat(&[&hdr(0x8100, 1, 1, 0, 0), &q(&qn), &rr(&[0xc0, 12], 6, &cat(&[&soa_ok, &[1]]))]), false));
    v.push(("soa-rdlen-21".into(), cat(&[&hdr(0x8100, 1, 1, 0, 0), &q(&qn), &rr(&[0xc0, 12], 6, &[0u8; 21])]), false));
    v.push(("soa-rdlen-22".into(), cat(&[&hdr(0x8100, 1, 1, 0, 0), &q(&qn), &rr(&[0xc0, 12], 6, &[0u8; 22])]), true));
    // OPT placements
    let opt = |owner: &[u8], rd: &[u8]| -> Vec<u8> {
        let mut b = owner.to_vec();
        b.extend_from_slice(&[0, 41, 0x10, 0, 0, 0, 0x80, 0]);
        b.extend_from_slice(&(rd.len() as u16).to_be_bytes());
        b.extend_from_slice(rd);
        b
    };
    let a_rr = rr(&[0xc0, 12], 1, &[1, 2, 3, 4]);
    v.push(("opt-only".into(), cat(&[&hdr(0x0100, 1, 0, 0, 1), &q(&qn), &opt(&[0], &[])]), true));
    v.push(("opt-first".into(), cat(&[&hdr(0x0100, 1, 0, 0, 2), &q(&qn), &opt(&[0], &[]), &a_rr]), true));
    v.push(("opt-last".into(), cat(&[&hdr(0x0100, 1, 0, 0, 2), &q(&qn), &a_rr, &opt(&[0], &[])]), true));
    v.push(("opt-middle".into(), cat(&[&hdr(0x0100, 1, 0, 0, 3), &q(&qn), &a_rr, &opt(&[0], &[]), &a_rr]), true));
    v.push(("opt-in-answer".into(), cat(&[&hdr(0x8100, 1, 1, 0, 0), &q(&qn), &opt(&[0], &[])]), false));
    v.push(("opt-in-authority".into(), cat(&[&hdr(0x8100, 1, 0, 1, 0), &q(&qn), &opt(&[0], &[])]), false));
    v.push(("opt-owner-label".into(), cat(&[&hdr(0x0100, 1, 0, 0, 1), &q(&qn), &opt(&[1, b'a', 0], &[])]), false));
    v.push(("opt-owner-pointer".into(), cat(&[&hdr(0x0100, 1, 0, 0, 1), &q(&qn), &opt(&[0xc0, 12], &[])]), false));
    v.push(("opt-twice".into(), cat(&[&hdr(0x0100, 1, 0, 0, 2), &q(&qn), &opt(&[0], &[]), &opt(&[0], &[])]), false));
    // options tiling
    v.push(("options-exact".into(), cat(&[&hdr(0x0100, 1, 0, 0, 1), &q(&qn), &opt(&[0], &[0, 8, 0, 2, 1, 2, 0, 12, 0, 0])]), true));
    for d in 1..=4u8 {
        let mut rd = vec![0, 8, 0, 2 + d, 1, 2];
        v.push((format!("option-overrun-{}", d), cat(&[&hdr(0x0100, 1, 0, 0, 1), &q(&qn), &opt(&[0], &rd)]), false));
        rd = vec![0, 8, 0, 2, 1, 2];
        rd.extend(std::iter::repeat(0).take(d as usize));
        v.push((format!("option-underrun-{}", d), cat(&[&hdr(0x0100, 1, 0, 0, 1), &q(&qn), &opt(&[0], &rd)]), d == 4));
    }
    // trailing byte, counts, qdcount, qclass, QR gating
    v.push(("trailing-byte".into(), cat(&[&hdr(0x0100, 1, 0, 0, 0), &q(&qn), &[0]]), false));
    v.push(("plain-query".into(), cat(&[&hdr(0x0100, 1, 0, 0, 0), &q(&qn)]), true));
    v.push(("qdcount-0".into(), hdr(0x0100, 0, 0, 0, 0), false));
    v.push(("qdcount-2".into(), cat(&[&hdr(0x0100, 2, 0, 0, 0), &q(&qn), &q(&qn)]), false));
    v.push(("ancount+1".into(), cat(&[&hdr(0x8100, 1, 2, 0, 0), &q(&qn), &a_rr]), false));
    v.push(("arcount-1".into(), cat(&[&hdr(0x8100, 1, 0, 0, 0), &q(&qn), &a_rr]), false));
    for (c, ok) in [(1u16, true), (3, false), (255, false), (0, false)] {
        let mut qq = qn.to_vec();
        qq.extend_from_slice(&[0, 1]);
        qq.extend_from_slice(&c.to_be_bytes());
        v.push((format!("qclass-{}", c), cat(&[&hdr(0x0100, 1, 0, 0, 0), &qq]), ok));
    }
    v.push(("query-with-answer".into(), cat(&[&hdr(0x0100, 1, 1, 0, 0), &q(&qn), &a_rr]), false));
    v.push(("query-with-authority".into(), cat(&[&hdr(0x0100, 1, 0, 1, 0), &q(&qn), &a_rr]), false));
    v.push(("query-with-additional".into(), cat(&[&hdr(0x0100, 1, 0, 0, 1), &q(&qn), &a_rr]), true));
    v.push(("response-with-answer".into(), cat(&[&hdr(0x8100, 1, 1, 0, 0), &q(&qn), &a_rr]), true));
    // header-pointer question: id = 01 'a', flags hi 0 => "a" at offset 0
    let mut hp = vec![1, b'a', 0, 0, 0, 1, 0, 0, 0, 0, 0, 0];
    hp.extend_from_slice(&[1, b'x', 0, 0, 1, 0, 1]);
    v.push(("pointer-into-header-forward".into(), {
        // question cannot point backward into the header from offset 12? it can: target 0 < 12
        let mut b = vec![1, b'a', 0, 0, 0, 1, 0, 0, 0, 0, 0, 0];
        b.extend_from_slice(&[0xc0, 0, 0, 1, 0, 1]);
        b
    }, true));
    v.push(("plain-question-with-label-header".into(), hp, true));
    v
}

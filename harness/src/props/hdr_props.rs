//! C12: header setters touch only their own bits; getters return what was set.
//! Exhaustive enumeration (no sampling in the 16 significant argument bits).

use crate::model::*;
use crate::props::known_sigs;
use crate::props::parse_props::lib_parse;
use crate::props::read_props::opt_rec;
use crate::runner::*;
use dnssector::{DNSSector, ParsedPacket};
use proptest::prelude::RngCore;
use proptest::test_runner::{RngAlgorithm, TestRng};
use serde_json::json;
use std::sync::Mutex;

const FLAG_BITS: u16 = 0x87f0; // QR AA TC RD RA Z AD CD
const EXT_FLAGS: u16 = 0x8421;

fn base_packet() -> Vec<u8> {
    let mut o = opt_rec();
    o.ttl = 0x0100_0000 | EXT_FLAGS as u32;
    let m = Message { id: 0xa55a, flags: 0, qd: vec![Question { name: Name::from_dotted("c12.example"), qtype: 1, qclass: 1 }], ar: vec![o], ..Default::default() };
    crate::enc::encode(&m, crate::enc::Layout::Literal).bytes
}

/// A response with records in the answer and authority sections (setters must not care) and the same OPT.
fn base_packet_with_records() -> Vec<u8> {
    let mut o = opt_rec();
    o.ttl = 0x0100_0000 | EXT_FLAGS as u32;
    let a = |n: &str| Record { owner: Name::from_dotted(n), rtype: T_A, class: 1, ttl: 5, rdata: Rdata::A([1, 2, 3, 4]) };
    let m = Message { id: 0x5aa5, flags: 0x8000, qd: vec![Question { name: Name::from_dotted("c12.example"), qtype: 1, qclass: 1 }], an: vec![a("c12.example")], ns: vec![a("ns.c12.example")], ar: vec![a("x.c12.example"), o], ..Default::default() };
    crate::enc::encode(&m, crate::enc::Layout::Literal).bytes
}

#[derive(Clone, Copy, Debug, PartialEq, Eq)]
pub enum Setter {
    Flags = 0,
    Rcode = 1,
    Opcode = 2,
    Response = 3,
    Tid = 4,
    StaticResponse = 5,
    /// the same setters reached through the C function table
    CFlags = 6,
    CRcode = 7,
    COpcode = 8,
}

/// One evaluation: header word `word` (and id 0xa55a), setter applied with `arg`.
pub fn eval(pp: &mut ParsedPacket, base: &[u8], setter: Setter, word: u16, arg: u32) -> PResult {
    {
        let p = pp.packet_mut();
        p.copy_from_slice(base);
        p[2] = (word >> 8) as u8;
        p[3] = word as u8;
    }
    let before: Vec<u8> = pp.packet().to_vec();
    // a panic inside an extern "C" function aborts the process: the method behind a table entry is
    // tried first (under catch), and the table entry is only called when the method returned
    if matches!(setter, Setter::CFlags | Setter::CRcode | Setter::COpcode) {
        let r0 = catch(|| match setter {
            Setter::CFlags => pp.set_flags(arg),
            Setter::CRcode => pp.set_rcode(arg as u8),
            _ => pp.set_opcode(arg as u8),
        });
        if let Err(pm) = r0 {
            fail!(format!("C12 setter-panic {:?} {}", setter, panic_sig(&pm)), "(method behind the table entry) {} setter={:?} header word={:#06x} arg={:#x}", pm, setter, word, arg);
        }
        let p = pp.packet_mut();
        p.copy_from_slice(base);
        p[2] = (word >> 8) as u8;
        p[3] = word as u8;
    }
    let r = catch(|| match setter {
        Setter::Flags => pp.set_flags(arg),
        Setter::Rcode => pp.set_rcode(arg as u8),
        Setter::Opcode => pp.set_opcode(arg as u8),
        Setter::Response => pp.set_response(arg & 1 == 1),
        Setter::Tid => pp.set_tid(arg as u16),
        Setter::StaticResponse => DNSSector::set_response(pp.packet_mut(), arg & 1 == 1),
        Setter::CFlags => unsafe { (dnssector::c_abi::fn_table().set_flags)(pp as *mut ParsedPacket, arg) },
        Setter::CRcode => unsafe { (dnssector::c_abi::fn_table().set_rcode)(pp as *mut ParsedPacket, arg as u8) },
        Setter::COpcode => unsafe { (dnssector::c_abi::fn_table().set_opcode)(pp as *mut ParsedPacket, arg as u8) },
    });
    let base_id = ((base[0] as u16) << 8) | base[1] as u16;
    // objects without an OPT record (the 12-byte packet of ParsedPacket::empty()) have no extended flags
    let ext_flags: u32 = if base.len() > 12 { EXT_FLAGS as u32 } else { 0 };
    let desc = || format!("setter={:?} header word={:#06x} arg={:#x} object={}", setter, word, arg, match base.len() { 12 => "ParsedPacket::empty() (12 bytes)", l if l > 60 => "response with answer and authority records + OPT", _ => "query + OPT" });
    if let Err(pm) = r {
        fail!(format!("C12 setter-panic {:?} {}", setter, panic_sig(&pm)), "{} {}", pm, desc());
    }
    let after = pp.packet().to_vec();
    ensure!(after.len() == before.len(), format!("C12 {:?} changed-packet-length", setter), "{}", desc());
    let w_after = ((after[2] as u16) << 8) | after[3] as u16;
    let id_after = ((after[0] as u16) << 8) | after[1] as u16;
    let (mask, want_field): (u16, u16) = match setter {
        Setter::Flags | Setter::CFlags => (FLAG_BITS, arg as u16 & FLAG_BITS),
        Setter::Rcode | Setter::CRcode => (0x000f, arg as u16 & 0x0f),
        Setter::Opcode | Setter::COpcode => (0x7800, (arg as u16 & 0x0f) << 11),
        Setter::Response | Setter::StaticResponse => (0x8000, if arg & 1 == 1 { 0x8000 } else { 0 }),
        Setter::Tid => (0, 0),
    };
    // only the target field may change, and it takes the argument's value
    ensure!((w_after ^ word) & !mask == 0, format!("C12 {:?} touched-other-bits", setter), "{}: word became {:#06x}, bits outside mask {:#06x} changed", desc(), w_after, mask);
    ensure!(w_after & mask == want_field, format!("C12 {:?} field-not-set", setter), "{}: word became {:#06x}, field {:#06x} should be {:#06x}", desc(), w_after, w_after & mask, want_field);
    if setter == Setter::Tid {
        ensure!(id_after == arg as u16, "C12 Tid field-not-set", "{}: id became {:#06x}", desc(), id_after);
    } else {
        ensure!(id_after == base_id, format!("C12 {:?} touched-id", setter), "{}", desc());
    }
    ensure!(after[4..] == before[4..], format!("C12 {:?} touched-counts-or-body", setter), "{}", desc());
    // getters
    let g = catch(|| (pp.flags(), pp.rcode(), pp.opcode(), pp.is_response(), pp.tid(), DNSSector::is_response(pp.packet())));
    let (flags, rcode, opcode, is_resp, tid, static_resp) = match g {
        Err(pm) => fail!(format!("C12 getter-panic {}", panic_sig(&pm)), "{} {}", pm, desc()),
        Ok(g) => g,
    };
    ensure!(flags >> 16 == ext_flags, "C12 flags-upper-half", "{}: flags()={:#x}", desc(), flags);
    ensure!(flags as u16 == w_after & FLAG_BITS, "C12 flags-getter", "{}: flags()={:#x} word={:#06x}", desc(), flags, w_after);
    ensure!(rcode as u16 == w_after & 0x0f, "C12 rcode-getter", "{}: rcode()={}", desc(), rcode);
    ensure!(opcode as u16 == (w_after >> 11) & 0x0f, "C12 opcode-getter", "{}: opcode()={}", desc(), opcode);
    ensure!(is_resp == (w_after & 0x8000 != 0) && static_resp == is_resp, "C12 is_response-getter", "{}", desc());
    ensure!(tid == id_after, "C12 tid-getter", "{}", desc());
    // the table's getters agree with the methods
    let cg = catch(|| unsafe {
        let t = dnssector::c_abi::fn_table();
        ((t.flags)(pp as *const ParsedPacket), (t.rcode)(pp as *const ParsedPacket), (t.opcode)(pp as *const ParsedPacket))
    });
    match cg {
        Err(pm) => fail!(format!("C12 getter-panic {}", panic_sig(&pm)), "table getters: {} {}", pm, desc()),
        Ok(cg) => ensure!(cg == (flags, rcode, opcode), "C12 table-getters-differ", "{}: table flags/rcode/opcode = {:?}, methods = {:?}", desc(), cg, (flags, rcode, opcode)),
    }
    // "each getter then returns the value stored, truncated to the field's width"
    match setter {
        Setter::Flags | Setter::CFlags => ensure!(flags as u16 == arg as u16 & FLAG_BITS, "C12 Flags getter-does-not-return-stored-value", "{}: flags()={:#x}", desc(), flags),
        Setter::Rcode | Setter::CRcode => ensure!(rcode == arg as u8 & 0x0f, "C12 Rcode getter-does-not-return-stored-value", "{}", desc()),
        Setter::Opcode | Setter::COpcode => ensure!(opcode == arg as u8 & 0x0f, "C12 Opcode getter-does-not-return-stored-value", "{}", desc()),
        Setter::Response | Setter::StaticResponse => ensure!(is_resp == (arg & 1 == 1), "C12 Response getter-does-not-return-stored-value", "{}", desc()),
        Setter::Tid => ensure!(tid == arg as u16, "C12 Tid getter-does-not-return-stored-value", "{}", desc()),
    }
    Ok(())
}

fn encode_case(s: Setter, word: u16, arg: u32) -> Vec<u8> {
    encode_case_obj(s, word, arg, 0)
}

/// `obj`: 0 = query + OPT, 1 = response with records in every section, 2 = ParsedPacket::empty()
fn encode_case_obj(s: Setter, word: u16, arg: u32, obj: u8) -> Vec<u8> {
    let mut v = vec![s as u8, (word >> 8) as u8, word as u8];
    v.extend_from_slice(&arg.to_be_bytes());
    v.push(obj);
    v
}

pub fn replay_c12(data: &[u8]) -> PResult {
    if data.len() < 7 {
        return Ok(());
    }
    let s = match data[0] {
        0 => Setter::Flags,
        1 => Setter::Rcode,
        2 => Setter::Opcode,
        3 => Setter::Response,
        4 => Setter::Tid,
        5 => Setter::StaticResponse,
        6 => Setter::CFlags,
        7 => Setter::CRcode,
        _ => Setter::COpcode,
    };
    let word = ((data[1] as u16) << 8) | data[2] as u16;
    let arg = u32::from_be_bytes([data[3], data[4], data[5], data[6]]);
    let obj = data.get(7).copied().unwrap_or(0);
    if obj == 2 {
        let mut e = ParsedPacket::empty();
        let base = e.packet().to_vec();
        return eval(&mut e, &base, s, word, arg);
    }
    let base = if obj == 1 { base_packet_with_records() } else { base_packet() };
    let mut pp = match lib_parse(&base) {
        Ok(Ok(p)) => p,
        _ => fail!("HARNESS: C12 base packet rejected", ""),
    };
    eval(&mut pp, &base, s, word, arg)
}

pub fn check_c12(ctx: &Ctx, known: &KnownFindings) -> Report {
    let mut rep = Report::new("C12");
    let ks = known_sigs(known, "C12");
    let thorough = ctx.tier == Tier::Thorough;
    let base = base_packet();
    // sampled values for the ignored upper half / extra lows (drawn from proptest's seeded RNG)
    let mut seed_bytes = [0u8; 32];
    seed_bytes[..8].copy_from_slice(&ctx.seed.to_le_bytes());
    let mut rng = TestRng::from_seed(RngAlgorithm::ChaCha, &seed_bytes);
    let mut lows: Vec<u32> = vec![0, 0xffff];
    for b in 0..16 {
        lows.push(1 << b);
        lows.push(0xffff ^ (1 << b));
    }
    for _ in 0..64 {
        lows.push(rng.next_u32() & 0xffff);
    }
    let mut uppers: Vec<u32> = vec![0, 0xffff_0000];
    for b in 16..32 {
        uppers.push(1 << b);
    }
    for _ in 0..6 {
        uppers.push(rng.next_u32() & 0xffff_0000);
    }
    let tid_words: Vec<u16> = {
        let mut v = vec![0u16, 0xffff, 0x8180, 0x0100];
        for _ in 0..28 {
            v.push(rng.next_u32() as u16);
        }
        v
    };
    let threads = ctx.threads.max(1);
    let evals = Mutex::new(0u64);
    let nontrivial = Mutex::new(0u64);
    let failures: Mutex<Vec<(Failure, Vec<u8>)>> = Mutex::new(vec![]);
    let known: Mutex<std::collections::BTreeMap<String, u64>> = Mutex::new(Default::default());
    std::thread::scope(|s| {
        for t in 0..threads {
            let (base, lows, uppers, tid_words, evals, nontrivial, failures, ks, known) = (&base, &lows, &uppers, &tid_words, &evals, &nontrivial, &failures, &ks, &known);
            s.spawn(move || {
                let mut pp = match lib_parse(base) {
                    Ok(Ok(p)) => p,
                    _ => return,
                };
                let mut n = 0u64;
                let mut nt = 0u64;
                let mut failed_sigs: Vec<String> = vec![];
                let mut run = |pp: &mut ParsedPacket, s: Setter, word: u16, arg: u32, mask: u16, n: &mut u64, nt: &mut u64| {
                    *n += 1;
                    if word & !mask != 0 {
                        *nt += 1;
                    }
                    if let Err(f) = eval(pp, base, s, word, arg) {
                        if let Some(k) = ks.iter().find(|k| f.sig.contains(k.as_str())) {
                            *known.lock().unwrap().entry(k.clone()).or_insert(0) += 1;
                            return;
                        }
                        if !failed_sigs.contains(&f.sig) && failed_sigs.len() < 4 {
                            failed_sigs.push(f.sig.clone());
                            failures.lock().unwrap().push((f, encode_case(s, word, arg)));
                        }
                    }
                };
                let mut word = t as u32;
                while word <= 0xffff {
                    let w = word as u16;
                    // set_flags
                    if thorough {
                        for low in 0..=0xffffu32 {
                            run(&mut pp, Setter::Flags, w, low, FLAG_BITS, &mut n, &mut nt);
                        }
                        for &u in uppers.iter() {
                            for &low in lows.iter().take(8) {
                                run(&mut pp, Setter::Flags, w, u | low, FLAG_BITS, &mut n, &mut nt);
                            }
                        }
                    } else {
                        for &low in lows.iter() {
                            for &u in uppers.iter().take(4) {
                                run(&mut pp, Setter::Flags, w, u | low, FLAG_BITS, &mut n, &mut nt);
                            }
                        }
                        for &u in uppers.iter() {
                            run(&mut pp, Setter::Flags, w, u | (w as u32 ^ 0xffff), FLAG_BITS, &mut n, &mut nt);
                        }
                    }
                    for a in 0..256u32 {
                        run(&mut pp, Setter::Rcode, w, a, 0x000f, &mut n, &mut nt);
                        run(&mut pp, Setter::Opcode, w, a, 0x7800, &mut n, &mut nt);
                        run(&mut pp, Setter::CRcode, w, a, 0x000f, &mut n, &mut nt);
                        run(&mut pp, Setter::COpcode, w, a, 0x7800, &mut n, &mut nt);
                    }
                    for &low in lows.iter() {
                        run(&mut pp, Setter::CFlags, w, low, FLAG_BITS, &mut n, &mut nt);
                        run(&mut pp, Setter::CFlags, w, 0xffff_0000 | low, FLAG_BITS, &mut n, &mut nt);
                    }
                    for a in 0..2u32 {
                        run(&mut pp, Setter::Response, w, a, 0x8000, &mut n, &mut nt);
                        run(&mut pp, Setter::StaticResponse, w, a, 0x8000, &mut n, &mut nt);
                    }
                    word += threads as u32;
                }
                // the same argument again and again while the header changes underneath (what a setter
                // that remembers its last argument would skip): argument outer, header word inner
                for &low in lows.iter() {
                    let mut w = t as u32;
                    while w <= 0xffff {
                        for s in [Setter::Flags, Setter::CFlags, Setter::Rcode, Setter::CRcode, Setter::Opcode, Setter::COpcode, Setter::Response] {
                            let mask = match s {
                                Setter::Flags | Setter::CFlags => FLAG_BITS,
                                Setter::Rcode | Setter::CRcode => 0x000f,
                                Setter::Opcode | Setter::COpcode => 0x7800,
                                _ => 0x8000,
                            };
                            run(&mut pp, s, w as u16, low, mask, &mut n, &mut nt);
                        }
                        w += (threads * 37) as u32;
                    }
                }
                // set_tid: all 65536 ids x sampled header words
                let mut id = t as u32;
                while id <= 0xffff {
                    for &w in tid_words.iter() {
                        run(&mut pp, Setter::Tid, w, id, 0, &mut n, &mut nt);
                    }
                    id += threads as u32;
                }
                // two more objects, reduced argument sets: a response with records in every section, and
                // the header-only 12-byte packet of ParsedPacket::empty()
                let base2 = base_packet_with_records();
                let mut objs: Vec<(Vec<u8>, ParsedPacket)> = vec![];
                if let Ok(Ok(p2)) = lib_parse(&base2) {
                    objs.push((base2, p2));
                }
                let e = ParsedPacket::empty();
                objs.push((e.packet().to_vec(), e));
                for (b, p) in objs.iter_mut() {
                    let obj: u8 = if b.len() == 12 { 2 } else { 1 };
                    let mut run2 = |s: Setter, word: u16, arg: u32, mask: u16, n: &mut u64, nt: &mut u64| {
                        *n += 1;
                        if word & !mask != 0 {
                            *nt += 1;
                        }
                        if let Err(f) = eval(p, b, s, word, arg) {
                            if ks.iter().any(|k| f.sig.contains(k.as_str())) {
                                return;
                            }
                            let mut fl = failures.lock().unwrap();
                            if fl.len() < 8 && !fl.iter().any(|(g, _)| g.sig == f.sig) {
                                fl.push((f, encode_case_obj(s, word, arg, obj)));
                            }
                        }
                    };
                    let mut word = t as u32;
                    while word <= 0xffff {
                        let w = word as u16;
                        for a in [0u32, 1, 2, 5, 15, 16, 31, 255] {
                            run2(Setter::Rcode, w, a, 0x000f, &mut n, &mut nt);
                            run2(Setter::Opcode, w, a, 0x7800, &mut n, &mut nt);
                            run2(Setter::CRcode, w, a, 0x000f, &mut n, &mut nt);
                            run2(Setter::COpcode, w, a, 0x7800, &mut n, &mut nt);
                        }
                        for a in [0u32, 0xffff, 0x8000, 0x7fff, 0xffff_0000 | (w as u32 ^ 0xffff)] {
                            run2(Setter::Flags, w, a, FLAG_BITS, &mut n, &mut nt);
                            run2(Setter::CFlags, w, a, FLAG_BITS, &mut n, &mut nt);
                        }
                        for a in 0..2u32 {
                            run2(Setter::Response, w, a, 0x8000, &mut n, &mut nt);
                            run2(Setter::StaticResponse, w, a, 0x8000, &mut n, &mut nt);
                        }
                        run2(Setter::Tid, w, w as u32 ^ 0x1234, 0, &mut n, &mut nt);
                        word += threads as u32;
                    }
                }
                *evals.lock().unwrap() += n;
                *nontrivial.lock().unwrap() += nt;
            });
        }
    });
    let n = evals.into_inner().unwrap();
    let nt = nontrivial.into_inner().unwrap();
    rep.stats.evals = n;
    for (k, v) in known.into_inner().unwrap() {
        rep.stats.excluded += v;
        *rep.known_hits.entry(k).or_insert(0) += v;
    }
    for (f, data) in failures.into_inner().unwrap() {
        rep.founds.push(Found { failure: f, data });
    }
    rep.stats.class_n("enumerated (setter, header word, argument) triples", n);
    rep.exhaustive = Some(true);
    rep.extra.insert("distinct_nontrivial_counted".into(), json!(nt));
    rep.extra.insert(
        "exhaustive_subspace".into(),
        json!(if thorough {
            "set_flags: all 65536 header words x all 65536 low argument halves (+ sampled upper halves); set_rcode/set_opcode (method and C table entry): 65536 x 256; C-table set_flags: 65536 x 98 x 2; set_response (method and DNSSector::set_response): 65536 x 2; set_tid: 65536 ids x 32 words; argument-outer pass: 98 arguments x 1772 words x 7 setters; all 65536 words x 47 (setter, argument) pairs on a response with records in every section and on ParsedPacket::empty()"
        } else {
            "set_flags: all 65536 header words x {0, 0xffff, 16 one-hot, 16 one-cold, 64 drawn, complement of the word} x upper halves {0, all ones, one-hot, drawn}; set_rcode/set_opcode (method and C table entry): 65536 x 256; C-table set_flags: 65536 x 98 x 2; set_response (method and DNSSector::set_response): 65536 x 2; set_tid: 65536 ids x 32 words; argument-outer pass (same argument while the header word changes): 98 arguments x 1772 words x 7 setters; all 65536 words x 47 (setter, argument) pairs on two more objects: a response with answer, authority and additional records, and the 12-byte packet of ParsedPacket::empty()"
        }),
    );
    // the enumeration has no duplicates, so the count of non-trivial triples is exact
    rep.counted_nontrivial = nt;
    rep.stats.sample("set_flags", json!({"header_word": "0xffff", "argument": "0x0", "expected_word_after": "0x780f"}));
    rep.stats.sample("set_rcode", json!({"header_word": "0xfff0", "argument": "0xff", "expected_word_after": "0xffff"}));
    rep.rule = "exhaustive enumeration of (setter, 16-bit header word, argument): see exhaustive_subspace. Oracle (bit arithmetic on the 12 header bytes): only bits in mask 0x87f0 (set_flags), 0x000f (set_rcode), 0x7800 (set_opcode), 0x8000 (set_response), bytes 0-1 (set_tid) may change and they take the argument's value; all other bytes of the packet unchanged; flags()/rcode()/opcode()/is_response()/tid() return the stored value truncated to the field width; flags() upper half stays the EDNS flags; the C table's set_flags/set_rcode/set_opcode and flags/rcode/opcode entries obey the same rules on the same object. Non-trivial: the starting word has a bit set outside the target field (what a wrong mask would clobber); counted exactly (the enumeration has no duplicates).".into();
    rep.assumptions = vec!["header word written directly into the packet bytes before each call (flags are not cached by the object)".into()];
    rep
}

//! C18: validation work is linear in the packet size.

use crate::props::known_sigs;
use crate::props::parse_props::gen_input;
use crate::runner::*;
use crate::src::Src;
use dnssector::{verif_hooks, DNSSector};
use serde_json::json;

pub const SLOPE: u64 = 32;
pub const CONST: u64 = 256;

/// Steps the validator spends on `bytes` (None = panic).
pub fn steps_of(bytes: &[u8]) -> Result<(u64, bool), String> {
    crate::history::fire_if_armed(bytes);
    let v = bytes.to_vec();
    verif_hooks::reset();
    // above the bound that is judged, but finite: a validator loop that never ends becomes a
    // count (and a violation of the bound) instead of a run that has to be killed
    let fuel = 4 * (SLOPE * bytes.len() as u64 + CONST);
    verif_hooks::set_limit(fuel);
    let r = catch(|| DNSSector::new(v).and_then(|d| d.parse()).is_ok());
    verif_hooks::set_limit(u64::MAX);
    let s = verif_hooks::steps();
    match r {
        Err(pm) if pm.contains("fuel exhausted") => Ok((s.max(fuel), false)),
        r => r.map(|ok| (s, ok)),
    }
}

fn hdr(flags: u16, an: usize, ns: usize, ar: usize) -> Vec<u8> {
    let mut h = vec![0xab, 0xcd];
    for x in [flags, 1, an as u16, ns as u16, ar as u16] {
        h.extend_from_slice(&x.to_be_bytes());
    }
    h
}

fn ptr(t: usize) -> [u8; 2] {
    [0xc0 | (t >> 8) as u8, t as u8]
}

/// 255-byte question name made of 127 one-byte labels, then a ladder of 15
/// records whose owners chain pointer -> pointer; returns (packet prefix,
/// offset of the deepest pointer (15 indirections), number of ladder records).
fn ladder() -> (Vec<u8>, usize, usize) {
    let mut b = vec![];
    for i in 0..127 {
        b.push(1);
        b.push(b'a' + (i % 26) as u8);
    }
    b.push(0);
    b.extend_from_slice(&[0, 1, 0, 1]);
    let mut body = b;
    let mut prev = 12; // question name
    let mut n = 0;
    let base = 12;
    for _ in 0..15 {
        let at = base + body.len();
        body.extend_from_slice(&ptr(prev));
        body.extend_from_slice(&[0, 16, 0, 1, 0, 0, 0, 0, 0, 0]); // TXT, rdlen 0
        prev = at;
        n += 1;
    }
    (body, prev, n)
}

/// Families of adversarial packets scaled to about `n` bytes. All are accepted by the parser.
pub fn family(fam: usize, n: usize) -> (Vec<u8>, &'static str) {
    let (body, deep, nl) = ladder();
    let budget = n.saturating_sub(12 + body.len());
    let split = |k: usize| -> (usize, usize, usize) {
        // spread k records over the three sections (each count <= 65535)
        let a = k.min(65535 - nl);
        let b = (k - a).min(65535);
        let c = (k - a - b).min(65535);
        (a, b, c)
    };
    match fam {
        0 => {
            // records whose owner goes through 16 pointers into the 255-byte name
            let k = budget / 12;
            let (a, b, c) = split(k);
            let mut p = hdr(0x8000, nl + a, b, c);
            p.extend_from_slice(&body);
            for _ in 0..(a + b + c) {
                p.extend_from_slice(&ptr(deep));
                p.extend_from_slice(&[0, 16, 0, 1, 0, 0, 0, 0, 0, 0]);
            }
            (p, "chain16-owner")
        }
        1 => {
            // NS records: owner and rdata name both 16-pointer chains (densest legal packing)
            let k = budget / 14;
            let (a, b, c) = split(k);
            let mut p = hdr(0x8000, nl + a, b, c);
            p.extend_from_slice(&body);
            for _ in 0..(a + b + c) {
                p.extend_from_slice(&ptr(deep));
                p.extend_from_slice(&[0, 2, 0, 1, 0, 0, 0, 0, 0, 2]);
                p.extend_from_slice(&ptr(deep));
            }
            (p, "chain16-ns")
        }
        2 => {
            // SOA records: three chained names per record
            let k = budget / 36;
            let (a, b, c) = split(k);
            let mut p = hdr(0x8000, nl + a, b, c);
            p.extend_from_slice(&body);
            for _ in 0..(a + b + c) {
                p.extend_from_slice(&ptr(deep));
                p.extend_from_slice(&[0, 6, 0, 1, 0, 0, 0, 0, 0, 24]);
                p.extend_from_slice(&ptr(deep));
                p.extend_from_slice(&ptr(deep));
                p.extend_from_slice(&[0; 20]);
            }
            (p, "chain16-soa")
        }
        3 => {
            // maximal literal names in every record
            let mut name = vec![];
            for i in 0..127 {
                name.push(1);
                name.push(b'a' + (i % 26) as u8);
            }
            name.push(0);
            let k = (budget / (255 + 10)).min(3 * 65535 - nl);
            let (a, b, c) = split(k);
            let mut p = hdr(0x8000, nl + a, b, c);
            p.extend_from_slice(&body);
            for _ in 0..(a + b + c) {
                p.extend_from_slice(&name);
                p.extend_from_slice(&[0, 16, 0, 1, 0, 0, 0, 0, 0, 0]);
            }
            (p, "maximal-literal-names")
        }
        4 => {
            // OPT with a dense list of empty options
            let k = (budget.saturating_sub(11) / 4).min(16383);
            let mut p = hdr(0x8000, nl, 0, 1);
            p.extend_from_slice(&body);
            p.extend_from_slice(&[0, 0, 41, 0x10, 0, 0, 0, 0, 0]);
            p.extend_from_slice(&((4 * k) as u16).to_be_bytes());
            for _ in 0..k {
                p.extend_from_slice(&[0, 12, 0, 0]);
            }
            (p, "dense-options")
        }
        6 => {
            // ladder far deeper than 16: rejected at the 17th pointer by the policy, cheap to reject;
            // without the indirection cap every record would walk the whole ladder
            let depth = (n / 24).clamp(17, 1300);
            let rest = n.saturating_sub(12 + 260 + depth * 12) / 12;
            let mut b = vec![];
            for i in 0..127 {
                b.push(1);
                b.push(b'a' + (i % 26) as u8);
            }
            b.push(0);
            b.extend_from_slice(&[0, 1, 0, 1]);
            let mut prev = 12;
            for _ in 0..depth {
                let at = 12 + b.len();
                b.extend_from_slice(&ptr(prev));
                b.extend_from_slice(&[0, 16, 0, 1, 0, 0, 0, 0, 0, 0]);
                prev = at;
            }
            let (a, bb, c) = {
                let k = rest;
                let a = k.min(65535 - depth);
                let b2 = (k - a).min(65535);
                (a, b2, (k - a - b2).min(65535))
            };
            let mut p = hdr(0x8000, depth + a, bb, c);
            p.extend_from_slice(&b);
            for _ in 0..(a + bb + c) {
                p.extend_from_slice(&ptr(prev));
                p.extend_from_slice(&[0, 16, 0, 1, 0, 0, 0, 0, 0, 0]);
            }
            (p, "deep-ladder(rejected)")
        }
        7 => {
            // one huge run of labels (far beyond 255 bytes) and many 2-byte pointers to it, either as the
            // question name or hidden in TXT data and reached through pointers only: rejected by the
            // length limit; quadratic if the limit is lifted (or not applied behind pointers)
            let labels = (n / 4).clamp(200, 7000);
            let k = n.saturating_sub(12 + 2 * labels + 30) / 12;
            let a = k.min(65000);
            if n % 2 == 0 {
                let mut p = hdr(0x8000, a, 0, 0);
                for i in 0..labels {
                    p.push(1);
                    p.push(b'a' + (i % 26) as u8);
                }
                p.push(0);
                p.extend_from_slice(&[0, 1, 0, 1]);
                for _ in 0..a {
                    p.extend_from_slice(&ptr(12));
                    p.extend_from_slice(&[0, 16, 0, 1, 0, 0, 0, 0, 0, 0]);
                }
                (p, "huge-name-many-pointers(rejected)")
            } else {
                let mut p = hdr(0x8000, a + 1, 0, 0);
                p.extend_from_slice(&[1, b'q', 0, 0, 1, 0, 1]);
                // TXT answer whose data holds the label run
                p.extend_from_slice(&[0xc0, 12, 0, 16, 0, 1, 0, 0, 0, 0]);
                p.extend_from_slice(&((2 * labels + 1) as u16).to_be_bytes());
                let run = p.len();
                for i in 0..labels {
                    p.push(1);
                    p.push(b'a' + (i % 26) as u8);
                }
                p.push(0);
                for _ in 0..a {
                    p.extend_from_slice(&ptr(run));
                    p.extend_from_slice(&[0, 16, 0, 1, 0, 0, 0, 0, 0, 0]);
                }
                (p, "huge-name-many-pointers(rejected)")
            }
        }
        8 => {
            // ladder hidden in TXT data mixing pure pointers and label+pointer rungs: blocks of 15 chained
            // pointers followed by one rung "1 'a' ptr"; far more than 16 indirections per name, rejected
            // by the policy, expensive if the pointer budget is ever refilled along the way
            let blocks = (n / 200).clamp(2, 120);
            let mut body: Vec<u8> = vec![];
            let base = 12 + 7 + 12; // header + question + TXT record header
            body.extend_from_slice(&[1, b'z', 0]);
            let mut prev = base; // offset of the name "z."
            for _ in 0..blocks {
                for _ in 0..15 {
                    let at = base + body.len();
                    body.extend_from_slice(&ptr(prev));
                    prev = at;
                }
                let at = base + body.len();
                body.extend_from_slice(&[1, b'a']);
                body.extend_from_slice(&ptr(prev));
                prev = at;
            }
            let k = (n.saturating_sub(base + body.len()) / 12).min(65000);
            let mut p = hdr(0x8000, k + 1, 0, 0);
            p.extend_from_slice(&[1, b'q', 0, 0, 1, 0, 1]);
            p.extend_from_slice(&[0xc0, 12, 0, 16, 0, 1, 0, 0, 0, 0]);
            p.extend_from_slice(&(body.len() as u16).to_be_bytes());
            debug_assert_eq!(p.len(), base);
            p.extend_from_slice(&body);
            for _ in 0..k {
                p.extend_from_slice(&ptr(prev));
                p.extend_from_slice(&[0, 16, 0, 1, 0, 0, 0, 0, 0, 0]);
            }
            (p, "mixed-ladder(rejected)")
        }
        9 => {
            // OPT with a dense list of empty options whose codes are all different
            let k = (budget.saturating_sub(11) / 4).min(16383);
            let mut p = hdr(0x8000, nl, 0, 1);
            p.extend_from_slice(&body);
            p.extend_from_slice(&[0, 0, 41, 0x10, 0, 0, 0, 0, 0]);
            p.extend_from_slice(&((4 * k) as u16).to_be_bytes());
            for i in 0..k {
                p.extend_from_slice(&(i as u16).to_be_bytes());
                p.extend_from_slice(&[0, 0]);
            }
            (p, "dense-options-distinct-codes")
        }
        10 => {
            // the smallest legal records (root owner, no data: 11 bytes each), all of different types
            let k = n.saturating_sub(12 + 5) / 11;
            let a = k.min(65535);
            let b = (k - a).min(65535);
            let c = (k - a - b).min(65535);
            let mut p = hdr(0x8000, a, b, c);
            p.extend_from_slice(&[0, 0, 1, 0, 1]);
            for i in 0..(a + b + c) {
                p.push(0);
                // types 256.. : opaque to the parser (none of them is a name-bearing type or OPT)
                p.extend_from_slice(&((256 + (i % 60000)) as u16).to_be_bytes());
                p.extend_from_slice(&[0, 1, 0, 0, 0, 0, 0, 0]);
            }
            (p, "dense-minimal-records")
        }
        11 => {
            // records with pairwise different literal two-label owners (nothing repeats, nothing is shared)
            let k = n.saturating_sub(12 + 5) / 17;
            let a = k.min(65535);
            let b = (k - a).min(65535);
            let c = (k - a - b).min(65535);
            let mut p = hdr(0x8000, a, b, c);
            p.extend_from_slice(&[0, 0, 1, 0, 1]);
            for i in 0..(a + b + c) {
                p.extend_from_slice(&[2, b'a' + (i % 26) as u8, b'a' + ((i / 26) % 26) as u8, 2, b'a' + ((i / 676) % 26) as u8, b'a' + ((i / 17576) % 26) as u8, 0]);
                p.extend_from_slice(&[0, 16, 0, 1, 0, 0, 0, 0, 0, 0]);
            }
            (p, "distinct-literal-owners")
        }
        12 => {
            // records of a type whose data must be a pointer-free name (DNAME), each holding nothing but a
            // pointer to the data of the one before: refused at the first record by the policy, expensive if
            // the data of such records is ever resolved through pointers
            let k = (n.saturating_sub(12 + 7 + 16) / 14).min(65000);
            let mut p = hdr(0x8000, k + 1, 0, 0);
            p.extend_from_slice(&[1, b'q', 0, 0, 1, 0, 1]);
            // first DNAME: literal target "t."
            p.extend_from_slice(&[0xc0, 12, 0, 39, 0, 1, 0, 0, 0, 0, 0, 3]);
            let mut prev = p.len();
            p.extend_from_slice(&[1, b't', 0]);
            // the chain proper stays within the reach of a 14-bit pointer; the remaining records all point
            // at its last link
            for i in 0..k {
                p.extend_from_slice(&[0xc0, 12, 0, 39, 0, 1, 0, 0, 0, 0, 0, 2]);
                let at = p.len();
                p.extend_from_slice(&ptr(prev));
                if i < 1000 {
                    prev = at;
                }
            }
            (p, "dname-pointer-chain(rejected)")
        }
        13 => {
            // a run of pointers, each to the one before, parked in opaque TXT data, and SRV records whose target
            // is a pointer to the end of the run: all opaque to the validator (accepted, a few steps per
            // record); expensive as soon as SRV targets (or any other opaque data) are resolved without the
            // indirection budget
            let run = (n / 40).clamp(20, 4000);
            let mut p = hdr(0x8000, 0, 0, 0);
            p.extend_from_slice(&[1, b'q', 0, 0, 1, 0, 1]);
            p.extend_from_slice(&[0xc0, 12, 0, 16, 0, 1, 0, 0, 0, 0]);
            p.extend_from_slice(&((2 * run) as u16).to_be_bytes());
            let mut prev = 12;
            for _ in 0..run {
                let at = p.len();
                p.extend_from_slice(&ptr(prev));
                prev = at;
            }
            let k = (n.saturating_sub(p.len()) / 20).min(65000);
            for _ in 0..k {
                p.extend_from_slice(&[0xc0, 12, 0, 33, 0, 1, 0, 0, 0, 0, 0, 8, 0, 1, 0, 2, 0, 80]);
                p.extend_from_slice(&ptr(prev));
            }
            let an = k + 1;
            p[6] = (an >> 8) as u8;
            p[7] = an as u8;
            (p, "srv-targets-into-pointer-run")
        }
        _ => {
            // MX records: 2-byte preference + chained name
            let k = budget / 16;
            let (a, b, c) = split(k);
            let mut p = hdr(0x8000, nl + a, b, c);
            p.extend_from_slice(&body);
            for _ in 0..(a + b + c) {
                p.extend_from_slice(&ptr(deep));
                p.extend_from_slice(&[0, 15, 0, 1, 0, 0, 0, 0, 0, 4, 0, 1]);
                p.extend_from_slice(&ptr(deep));
            }
            (p, "chain16-mx")
        }
    }
}

pub const NFAM: usize = 14;

fn bound_check(bytes: &[u8], what: &str, st: &mut Stats) -> PResult {
    let (s, ok) = match steps_of(bytes) {
        Ok(x) => x,
        Err(pm) => fail!(format!("C18 parse-panic {}", panic_sig(&pm)), "{} on {}", pm, what),
    };
    let len = bytes.len() as u64;
    ensure!(
        s <= SLOPE * len + CONST,
        "C18 step-bound-exceeded",
        "{}: {} validator steps for {} bytes (bound {}*len+{} = {}); accepted={}; input={}",
        what,
        s,
        len,
        SLOPE,
        CONST,
        SLOPE * len + CONST,
        ok,
        crate::model::hex_abbrev(bytes)
    );
    if len > 0 {
        st.max("max_steps_per_byte", s as f64 / len as f64);
    }
    if s >= len && len >= 12 {
        st.nontrivial(&bytes);
    }
    Ok(())
}

/// Step bound on one input (used by the fuzz target).
pub fn bound_check_pub(bytes: &[u8]) -> PResult {
    bound_check(bytes, "fuzz input", &mut Stats::default())
}

fn c18_case(data: &[u8], st: &mut Stats) -> PResult {
    let mut src = Src::new(data);
    crate::history::case(&mut src, st, 6, c18_body)
}

fn c18_body(src: &mut Src, st: &mut Stats) -> PResult {
    let mut src = src.fork();
    match src.weighted(&[5, 3]) {
        0 => {
            let (bytes, origin) = gen_input(&mut src);
            st.class(&format!("stream:{}", origin.tag().split(':').next().unwrap()));
            bound_check(&bytes, "generated input", st)
        }
        _ => {
            // a family at a drawn size, optionally damaged at one byte
            let fam = src.below(NFAM);
            let n = match src.below(4) {
                0 => src.range(600, 2000),
                1 => src.range(2000, 9000),
                2 => src.range(9000, 40000),
                _ => src.range(40000, 70000),
            };
            let (mut b, name) = family(fam, n);
            let damaged = src.chance(100);
            if damaged {
                let k = src.range(1, 3);
                for _ in 0..k {
                    let at = src.below(b.len());
                    b[at] = match src.below(4) {
                        0 => 0xc0,
                        1 => 0,
                        2 => b[at].wrapping_add(1),
                        _ => src.u8(),
                    };
                }
            }
            st.class(&format!("family:{}{}", name, if damaged { "+damage" } else { "" }));
            let r = bound_check(&b, name, st);
            if r.is_ok() && st.wants_sample(&format!("family:{}", name)) {
                let (s, ok) = steps_of(&b).unwrap_or((0, false));
                st.sample(&format!("family:{}", name), json!({"family": name, "len": b.len(), "steps": s, "steps_per_byte": s as f64 / b.len() as f64, "accepted": ok, "damaged": damaged}));
            }
            r
        }
    }
}

/// Instructions executed by `dnsverif c18-instr <fam> <n>` under cachegrind (None: valgrind missing or failed).
fn instr_of(fam: usize, n: usize) -> Option<(u64, usize, bool)> {
    let exe = std::env::current_exe().ok()?;
    let out = std::process::Command::new("valgrind")
        .args(["--tool=cachegrind", "--cache-sim=no", "--cachegrind-out-file=/dev/null"])
        .arg(exe)
        .args(["c18-instr", &fam.to_string(), &n.to_string()])
        .env_remove("VERIF_LOUD_PANICS")
        .output()
        .ok()?;
    let so = String::from_utf8_lossy(&out.stdout).to_string();
    let se = String::from_utf8_lossy(&out.stderr).to_string();
    let len: usize = so.split("len=").nth(1)?.split_whitespace().next()?.parse().ok()?;
    let ok = so.contains("accepted=true");
    let line = se.lines().find(|l| l.contains("I") && l.contains("refs:"))?;
    let digits: String = line.split("refs:").nth(1)?.chars().filter(|c| c.is_ascii_digit()).collect();
    Some((digits.parse().ok()?, len, ok))
}

/// Hook-independent cross-check: the number of machine instructions the process executes (cachegrind,
/// deterministic) must grow linearly with the size of each adversarial family, so a loop that was
/// added without a step hook is seen as well. Slope between the two larger sizes <= 1.5 x slope
/// between the two smaller sizes + 50 instructions/byte (linear growth gives 1, quadratic 2).
fn instruction_count_part(rep: &mut Report, ctx: &Ctx, ks: &[String]) {
    let have = std::process::Command::new("valgrind").arg("--version").output().map(|o| o.status.success()).unwrap_or(false);
    if !have || std::env::var_os("VERIF_NO_VALGRIND").is_some() {
        rep.stats.class("instruction-count:skipped(no valgrind)");
        return;
    }
    let mut triples: Vec<[usize; 3]> = vec![[15_000, 30_000, 60_000]];
    if ctx.tier == Tier::Thorough {
        triples.push([50_000, 100_000, 200_000]);
        triples.push([4_000, 8_000, 16_000]);
    }
    let jobs: Vec<(usize, usize)> = (0..NFAM).flat_map(|f| triples.iter().flat_map(move |t| t.iter().map(move |&n| (f, n)))).collect();
    let results: std::sync::Mutex<std::collections::BTreeMap<(usize, usize), Option<(u64, usize, bool)>>> = std::sync::Mutex::new(Default::default());
    let next = std::sync::atomic::AtomicUsize::new(0);
    std::thread::scope(|s| {
        for _ in 0..ctx.threads.max(1) {
            s.spawn(|| loop {
                let i = next.fetch_add(1, std::sync::atomic::Ordering::SeqCst);
                if i >= jobs.len() {
                    break;
                }
                let (f, n) = jobs[i];
                let r = instr_of(f, n);
                results.lock().unwrap().insert((f, n), r);
            });
        }
    });
    let results = results.into_inner().unwrap();
    let mut table = vec![];
    for fam in 0..NFAM {
        for t in &triples {
            let m: Vec<Option<(u64, usize, bool)>> = t.iter().map(|&n| results.get(&(fam, n)).cloned().flatten()).collect();
            let (a, b, c) = match (m[0], m[1], m[2]) {
                (Some(a), Some(b), Some(c)) => (a, b, c),
                _ => {
                    rep.stats.class("instruction-count:measurement-failed");
                    continue;
                }
            };
            let name = family(fam, t[0]).1;
            // families whose length stops growing (count caps) are not judged at that triple
            if b.1 < a.1 + a.1 / 2 || c.1 < b.1 + b.1 / 2 {
                rep.stats.class("instruction-count:family-capped");
                continue;
            }
            let s1 = (b.0 as f64 - a.0 as f64) / (b.1 - a.1) as f64;
            let s2 = (c.0 as f64 - b.0 as f64) / (c.1 - b.1) as f64;
            table.push(json!({"family": name, "lens": [a.1, b.1, c.1], "instructions": [a.0, b.0, c.0], "instr_per_byte": [(s1 * 10.0).round() / 10.0, (s2 * 10.0).round() / 10.0]}));
            rep.stats.class("instruction-count:measured");
            rep.stats.evals += 3;
            let r: PResult = if s2 <= 1.5 * s1.max(0.0) + 50.0 {
                Ok(())
            } else {
                Err(Failure::new(
                    "C18 instruction-count-super-linear",
                    format!("family {} ({}): {} / {} / {} instructions at {} / {} / {} bytes: {:.1} then {:.1} instructions per additional byte (cachegrind; replay: valgrind --tool=cachegrind --cache-sim=no dnsverif c18-instr {} <size>)", fam, name, a.0, b.0, c.0, a.1, b.1, c.1, s1, s2, fam),
                ))
            };
            rep.direct(&format!("instruction count family {}", fam), Ok(r), ks);
        }
    }
    rep.extra.insert("instruction_count_table".into(), json!(table));
}

pub fn replay_c18(data: &[u8]) -> PResult {
    c18_case(data, &mut Stats::default())
}

pub fn check_c18(ctx: &Ctx, known: &KnownFindings) -> Report {
    let mut rep = Report::new("C18");
    let ks = known_sigs(known, "C18");
    rep.rule = format!("step counter (verif_hooks: one step per label/pointer followed, per record, per question, per EDNS option) across DNSSector::parse. Deterministic part: 14 adversarial families (16-pointer chains into a 255-byte name as owner / NS / SOA / MX names, maximal literal names, dense empty options with one code and with pairwise different codes, 11-byte records of pairwise different types, pairwise different literal owners, three rejected ladder/huge-name shapes, a chain of DNAME records whose data is a pointer to the previous one's data - rejected; SRV records whose target points into a long run of chained pointers parked in TXT data - opaque today) at sizes 64 .. 65535 .. 200000 (thorough: .. 1 MB), each accepted by the parser. Generated part: the C01 input stream and the families at drawn sizes with 1-3 damaged bytes. Oracle: steps <= {}*len + {} for every input, and per family ratio(len ~65535) <= 1.25*ratio(len ~4096) + 1 (no super-linear growth). Cross-check without the hook: machine instructions of a process that builds and parses each family (cachegrind, --cache-sim=no) at 15000/30000/60000 bytes (thorough: also 4000/8000/16000 and 50000/100000/200000): instructions per additional byte between the two larger sizes <= 1.5 x that between the two smaller sizes + 50. Non-trivial: the parser executes >= len steps; distinct = hash of input.", SLOPE, CONST);
    rep.assumptions = vec![
        "the counter measures the instrumented validator loops only (name walkers, option loop, per-record/per-question entry); an un-instrumented new loop would be invisible here".into(),
        "constant 32 derives from the policy: <= 16 pointers + <= 128 labels per name walk, densest legal packing two chained names per 14-byte NS record (~20.7 steps/byte)".into(),
    ];
    let mut sizes: Vec<usize> = vec![64, 128, 512, 700, 1024, 2048, 4096, 8192, 16384, 32768, 65535, 100_000, 200_000];
    if ctx.tier == Tier::Thorough {
        sizes.extend([400_000, 1_000_000]);
        for i in 0..60 {
            sizes.push(600 + i * 1100);
        }
    } else {
        for i in 0..20 {
            sizes.push(650 + i * 3300);
        }
    }
    let mut table = vec![];
    for fam in 0..NFAM {
        let mut r4096 = None;
        let mut r65535 = None;
        for &n in &sizes {
            let (b, name) = family(fam, n);
            let mut st = Stats::default();
            let r = catch(|| bound_check(&b, &format!("family {} at {} bytes", name, b.len()), &mut st));
            let (s, ok) = steps_of(&b).unwrap_or((0, false));
            let ratio = s as f64 / b.len().max(1) as f64;
            if n == 4096 {
                r4096 = Some(ratio);
            }
            if n == 65535 {
                r65535 = Some(ratio);
            }
            if [64usize, 4096, 65535, 200_000, 1_000_000].contains(&n) {
                table.push(json!({"family": name, "len": b.len(), "steps": s, "steps_per_byte": (ratio * 100.0).round() / 100.0, "accepted": ok}));
            }
            rep.stats.class(&format!("deterministic:{}", name));
            if ok {
                rep.stats.class("deterministic:accepted");
            } else if n >= 700 && !name.ends_with("(rejected)") {
                // the families are meant to be valid: a rejected one is a harness problem
                rep.direct(&format!("family {} at {}", name, n), Ok(Err(Failure::new("HARNESS: adversarial family rejected by the parser", format!("{} {}", name, n)))), &ks);
            }
            rep.stats.merge(st);
            rep.direct(&format!("family {} at {}", name, n), r, &ks);
        }
        if let (Some(a), Some(b)) = (r4096, r65535) {
            let r: PResult = if b <= 1.25 * a + 1.0 { Ok(()) } else { Err(Failure::new("C18 super-linear-growth", format!("family {}: steps/byte {} at 4096 bytes but {} at 65535 bytes", fam, a, b))) };
            rep.direct(&format!("growth family {}", fam), Ok(r), &ks);
        }
    }
    rep.extra.insert("family_table".into(), json!(table));
    instruction_count_part(&mut rep, ctx, &ks);
    let prop = (1200usize, c18_case);
    let r = drive(&prop, ctx.cases(150_000, 3_000_000), ctx, 18, &ks);
    rep.absorb(r);
    rep.require(&["stream:valid", "stream:damaged", "stream:raw", "stream:long", "deterministic:accepted", "family:chain16-ns", "family:chain16-ns+damage", "family:dense-options", "family:dense-options-distinct-codes", "family:dense-minimal-records", "family:distinct-literal-owners"]);
    rep
}

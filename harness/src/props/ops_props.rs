//! C08 (object view == fresh parse after any history), C09 (each mutation has
//! exactly its stated effect), C10 (failed operations change nothing; 8192
//! limit) and C11 (deleting while iterating): one interpreter of generated
//! operation scripts, run against the live object and an abstract message model.

use crate::gens::{self, GenOpts, NameCtx};
use crate::model::*;
use crate::props::known_sigs;
use crate::props::parse_props::lib_parse;
use crate::props::read_props::{check_summary, check_walks, gen_accepted};
use crate::props::xform_props::{gen_rename_args, model_rename};
use crate::refdec::{self, Decoded};
use crate::rrtext::{self, TextOpts};
use crate::runner::*;
use crate::src::Src;
use dnssector::constants::{Class, Section, Type};
use dnssector::synth::gen as dgen;
use dnssector::{DNSIterable, ParsedPacket, RdataIterable, ResponseIterator, TypedIterable};
use serde_json::json;
use std::net::{IpAddr, Ipv4Addr, Ipv6Addr};

#[derive(Clone, Copy, Debug, PartialEq, Eq)]
pub enum Which {
    C08,
    C09,
    C10,
}

impl Which {
    fn id(&self) -> &'static str {
        match self {
            Which::C08 => "C08",
            Which::C09 => "C09",
            Which::C10 => "C10",
        }
    }
}

fn section_of(sec: usize) -> Section {
    match sec {
        0 => Section::Question,
        1 => Section::Answer,
        2 => Section::NameServers,
        _ => Section::Additional,
    }
}

/// Visit the `idx`-th record of a response section (OPT skipped unless `incl_opt`).
fn with_rr<R>(pp: &mut ParsedPacket, sec: usize, idx: usize, incl_opt: bool, f: impl FnOnce(ResponseIterator<'_>) -> R) -> Option<R> {
    let mut it = match (sec, incl_opt) {
        (1, _) => pp.into_iter_answer(),
        (2, _) => pp.into_iter_nameservers(),
        (3, false) => pp.into_iter_additional(),
        (3, true) => pp.into_iter_additional_including_opt(),
        _ => panic!("bad section"),
    };
    let mut k = 0;
    while let Some(item) = it {
        if k == idx {
            return Some(f(item));
        }
        k += 1;
        if k > 70_000 {
            return None;
        }
        it = if incl_opt { item.next_including_opt() } else { item.next() };
    }
    None
}

/// What a cursor reports right after an operation through it.
#[derive(Clone, Debug)]
struct CursorObs {
    result: Result<(), String>,
    second: Option<Result<(), String>>,
    tombstone: bool,
    name: Option<Vec<u8>>,
    offset: Option<usize>,
    next: Option<Option<(Vec<u8>, usize)>>,
    /// read through the same cursor right after the operation
    ttl_after: Option<u32>,
    type_after: Option<u16>,
}

impl Default for CursorObs {
    fn default() -> Self {
        CursorObs { result: Ok(()), second: None, tombstone: false, name: None, offset: None, next: None, ttl_after: None, type_after: None }
    }
}

/// Indices (in the model's additional section) of the records a walk visits.
fn visible(m: &Message, sec: usize, incl_opt: bool) -> Vec<usize> {
    m.section(sec).iter().enumerate().filter(|(_, r)| incl_opt || !r.is_opt()).map(|(i, _)| i).collect()
}

pub struct Interp<'a> {
    pub which: Which,
    pub pp: ParsedPacket,
    pub model: Message,
    pub ci: bool,
    pub trace: Vec<String>,
    pub st: &'a mut Stats,
    pub size_changed_then_used: bool,
    size_changed: bool,
    pub failed_after_mutation: bool,
    mutated: bool,
    pub steps: usize,
}

fn short(s: &str) -> String {
    s.chars().take(900).collect()
}

impl<'a> Interp<'a> {
    fn ctx(&self) -> String {
        format!("trace={:?}", self.trace)
    }

    fn bytes(&self) -> Result<Vec<u8>, Failure> {
        match catch(|| self.pp.packet.clone()) {
            Ok(Some(b)) => Ok(b),
            _ => Err(Failure::new(format!("{} object-holds-no-packet", self.which.id()), self.ctx())),
        }
    }

    /// Post-condition after every step.
    fn post(&mut self, src: &mut Src, failed: bool, before: &Decoded, before_bytes: &[u8]) -> PResult {
        let id = self.which.id();
        let bytes = self.bytes()?;
        let d = match refdec::decode(&bytes, refdec::Opts { allow_no_question: true }) {
            Ok(d) if !d.quirk => d,
            Ok(_) => fail!(format!("{} bytes-unspecified-after-op", id), "{}", self.ctx()),
            Err(r) => {
                let sig = if failed { format!("C10 failed-op-corrupted-packet {}", r.clause) } else { format!("{} bytes-not-well-formed {}", id, r.clause) };
                if failed && self.which != Which::C10 {
                    // a failing op corrupting the packet is C10's finding; C08/C09 stop this script quietly
                    return Err(Failure::new("SKIP", ""));
                }
                fail!(sig, "reference rejects the packet after the last step ({:?}); bytes={} before={} {}", r, hex_abbrev(&bytes), hex_abbrev(before_bytes), short(&self.ctx()));
            }
        };
        match self.which {
            Which::C10 => {
                if failed {
                    ensure!(
                        d.msg == before.msg,
                        "C10 failed-op-changed-message",
                        "{}; bytes={} {}",
                        before.msg.diff(&d.msg, false),
                        hex_abbrev(&bytes),
                        short(&self.ctx())
                    );
                }
                // the object must still satisfy C08 after a failed op
                if failed {
                    self.view_check(src, &d, &bytes, "C10")?;
                }
                // size limit after successful inserts is checked at the op
            }
            Which::C08 => {
                if !failed {
                    self.view_check(src, &d, &bytes, "C08")?;
                }
            }
            Which::C09 => {
                if !failed {
                    let eq = if self.ci { d.msg.eq_ci(&self.model) } else { d.msg == self.model };
                    ensure!(eq, "C09 wrong-effect", "{}; bytes={} {}", self.model.diff(&d.msg, self.ci), hex_abbrev(&bytes), short(&self.ctx()));
                    // "the EDNS data stay equal": also as read through the live object
                    let pp = &mut self.pp;
                    match catch(|| crate::view::walk_edns(pp)) {
                        Err(pm) => fail!(format!("C09 edns-walk-panic {}", panic_sig(&pm)), "{}; bytes={} {}", pm, hex_abbrev(&bytes), short(&self.ctx())),
                        Ok(got) => {
                            let want = crate::view::expect_edns(&d, &bytes);
                            ensure!(got == want, "C09 edns-data-changed", "EDNS options read through the object: {:?}, in the bytes: {:?}; {}", got, want, short(&self.ctx()));
                        }
                    }
                }
            }
        }
        // keep the model's case in step with the bytes once compression intervened
        if self.ci && d.msg.eq_ci(&self.model) {
            self.model = d.msg.clone();
        }
        Ok(())
    }

    fn view_check(&mut self, src: &mut Src, d: &Decoded, bytes: &[u8], pfx: &str) -> PResult {
        if d.q.is_some() {
            match lib_parse(bytes) {
                Ok(Ok(_)) => {}
                Ok(Err(e)) => fail!(format!("{} bytes-rejected-by-parser", pfx), "{:?}; bytes={} {}", e, hex_abbrev(bytes), short(&self.ctx())),
                Err(pm) => fail!(format!("{} parse-panic {}", pfx, panic_sig(&pm)), "{}", pm),
            }
        }
        if !self.pp.maybe_compressed {
            ensure!(!d.has_pointer(), format!("{} maybe_compressed-false-but-pointer-present", pfx), "bytes={} {}", hex_abbrev(bytes), short(&self.ctx()));
        }
        let order = src.below(4);
        let gorder = src.u8();
        let pp = &mut self.pp;
        let r = catch(|| -> PResult {
            check_summary(pp, d, gorder, pfx, false)?;
            check_walks(pp, d, bytes, order, pfx)
        });
        match r {
            Err(pm) => fail!(format!("{} view-panic {}", pfx, panic_sig(&pm)), "{}; bytes={} {}", pm, hex_abbrev(bytes), short(&self.ctx())),
            Ok(Err(f)) => Err(Failure::new(f.sig, format!("{}; bytes={} {}", f.detail, hex_abbrev(bytes), short(&self.ctx())))),
            Ok(Ok(())) => Ok(()),
        }
    }

    fn note_mutation(&mut self, size_changing: bool) {
        if self.size_changed {
            self.size_changed_then_used = true;
        }
        if size_changing {
            self.size_changed = true;
        }
        self.mutated = true;
    }

    fn note_failure(&mut self) {
        if self.mutated {
            self.failed_after_mutation = true;
        }
        if self.size_changed {
            self.size_changed_then_used = true;
        }
    }

    /// One generated step. Returns Ok(false) when the script should stop.
    pub fn step(&mut self, src: &mut Src, inject_failures: bool) -> Result<bool, Failure> {
        let id = self.which.id();
        let before_bytes = self.bytes()?;
        let before = match refdec::decode(&before_bytes, refdec::Opts { allow_no_question: true }) {
            Ok(d) => d,
            Err(_) => return Ok(false),
        };
        let qr = self.model.is_response();
        let has_q = !self.model.qd.is_empty();
        let has_anns = !self.model.an.is_empty() || !self.model.ns.is_empty();
        self.steps += 1;
        let want_fail = inject_failures && src.chance(90);
        let mut failed = false;
        let opk = src.weighted(&[3, 6, 5, 12, 9, 9, 4, 2, 4, 3]);
        match opk {
            0 => {
                // header setters
                match src.below(5) {
                    0 => {
                        let v = src.u16();
                        self.trace.push(format!("set_tid({:#x})", v));
                        self.pp.set_tid(v);
                        self.model.id = v;
                    }
                    1 => {
                        let mut v = src.u32();
                        if has_anns {
                            v |= 0x8000;
                        }
                        self.trace.push(format!("set_flags({:#x})", v));
                        self.pp.set_flags(v);
                        self.model.flags = (self.model.flags & 0x780f) | (v as u16 & !0x780f);
                    }
                    2 => {
                        let v = src.u8();
                        self.trace.push(format!("set_rcode({})", v));
                        self.pp.set_rcode(v);
                        self.model.flags = (self.model.flags & !0x000f) | (v as u16 & 0x0f);
                    }
                    3 => {
                        let v = src.u8();
                        self.trace.push(format!("set_opcode({})", v));
                        self.pp.set_opcode(v);
                        self.model.flags = (self.model.flags & !0x7800) | ((v as u16 & 0x0f) << 11);
                    }
                    _ => {
                        let v = src.chance(128) || has_anns;
                        self.trace.push(format!("set_response({})", v));
                        self.pp.set_response(v);
                        self.model.flags = if v { self.model.flags | 0x8000 } else { self.model.flags & 0x7fff };
                    }
                }
                self.note_mutation(false);
                self.st.class("op:header-setter");
            }
            1 => {
                // set_rr_ttl / set_rr_ip on a non-OPT record
                let sec = src.range(1, 3);
                let vis = visible(&self.model, sec, false);
                if vis.is_empty() {
                    return Ok(true);
                }
                let k = src.below(vis.len());
                let mi = vis[k];
                if src.chance(128) {
                    let ttl = src.u32();
                    self.trace.push(format!("set_rr_ttl(sec{} #{} {})", sec, k, ttl));
                    let pp = &mut self.pp;
                    let r = catch(|| with_rr(pp, sec, k, false, |mut c| c.set_rr_ttl(ttl)));
                    match r {
                        Err(pm) => fail!(format!("{} set_rr_ttl-panic {}", id, panic_sig(&pm)), "{} {}", pm, self.ctx()),
                        Ok(None) => fail!(format!("{} record-not-reachable", id), "{}", self.ctx()),
                        Ok(Some(())) => {}
                    }
                    self.model.section_mut(sec)[mi].ttl = ttl;
                    self.note_mutation(false);
                    self.st.class("op:set_rr_ttl");
                } else {
                    let v6 = src.chance(128);
                    let ip: IpAddr = if v6 {
                        IpAddr::V6(Ipv6Addr::from(crate::gens::gen_v6(src)))
                    } else {
                        IpAddr::V4(Ipv4Addr::new(src.u8(), src.u8(), src.u8(), src.u8()))
                    };
                    self.trace.push(format!("set_rr_ip(sec{} #{} {})", sec, k, ip));
                    let pp = &mut self.pp;
                    let r = catch(|| with_rr(pp, sec, k, false, |mut c| c.set_rr_ip(&ip).map_err(|e| e.to_string())));
                    let r = match r {
                        Err(pm) => fail!(format!("{} set_rr_ip-panic {}", id, panic_sig(&pm)), "{} {}", pm, self.ctx()),
                        Ok(None) => fail!(format!("{} record-not-reachable", id), "{}", self.ctx()),
                        Ok(Some(r)) => r,
                    };
                    let rec = &mut self.model.section_mut(sec)[mi];
                    let expect_ok = matches!((&rec.rdata, &ip), (Rdata::A(_), IpAddr::V4(_)) | (Rdata::Aaaa(_), IpAddr::V6(_)));
                    match (r, expect_ok) {
                        (Ok(()), true) => {
                            match (&mut rec.rdata, ip) {
                                (Rdata::A(a), IpAddr::V4(i)) => *a = i.octets(),
                                (Rdata::Aaaa(a), IpAddr::V6(i)) => *a = i.octets(),
                                _ => {}
                            }
                            self.note_mutation(false);
                            self.st.class("op:set_rr_ip");
                        }
                        (Err(_), false) => {
                            failed = true;
                            self.st.class("fail:set_rr_ip-wrong-type-or-family");
                        }
                        (Ok(()), false) => fail!(format!("{} set_rr_ip-accepted-on-wrong-record", id), "{}", self.ctx()),
                        (Err(e), true) => fail!(format!("{} set_rr_ip-fails", id), "{:?} {}", e, self.ctx()),
                    }
                }
            }
            2 | 3 => {
                // set_raw_name through a cursor (any section incl. the question)
                let sec = if opk == 2 { 0 } else { src.range(1, 3) };
                let (k, mi) = if sec == 0 {
                    if !has_q {
                        return Ok(true);
                    }
                    (0, 0)
                } else {
                    let vis = visible(&self.model, sec, false);
                    if vis.is_empty() {
                        return Ok(true);
                    }
                    let k = src.below(vis.len());
                    (k, vis[k])
                };
                let cur = if sec == 0 { self.model.qd[0].name.clone() } else { self.model.section(sec)[mi].owner.clone() };
                // the new name
                let mut expect_ok = true;
                let mut kind = "valid";
                let raw: Vec<u8> = if want_fail {
                    expect_ok = false;
                    match src.below(7) {
                        0 => {
                            kind = "label-64";
                            let mut v = vec![64u8];
                            v.extend(std::iter::repeat(b'a').take(64));
                            v.push(0);
                            v
                        }
                        1 => {
                            kind = "pointer";
                            vec![1, b'a', 0xc0, 0x0c]
                        }
                        2 => {
                            kind = "truncated";
                            vec![3, b'a', b'b']
                        }
                        3 => {
                            kind = "name-256";
                            let mut v = gens::name_of_wire_len(src, 255).to_wire();
                            v.splice(0..0, [1u8, b'x']);
                            v
                        }
                        4 => {
                            kind = "empty-slice";
                            vec![]
                        }
                        5 => {
                            kind = "unterminated";
                            vec![1, b'a', 1]
                        }
                        _ => {
                            kind = "forbidden-char";
                            let c = *src.pick(&[b'.', b'\\', 0u8, 0x1f, 0x7f]);
                            vec![3, b'a', c, b'b', 3, b'c', b'o', b'm', 0]
                        }
                    }
                } else {
                    let mut ctx = NameCtx::default();
                    for q in &self.model.qd {
                        ctx.used.push(q.name.clone());
                    }
                    for r in self.model.all_records().take(6) {
                        ctx.used.push(r.owner.clone());
                    }
                    ctx.used.retain(|n| !n.is_root());
                    let n = match src.below(5) {
                        0 => {
                            // same length: change one byte
                            let mut n = cur.clone();
                            if let Some(l) = n.0.first_mut() {
                                l[0] = if l[0] == b'k' { b'j' } else { b'k' };
                            }
                            n
                        }
                        1 => Name::root(),
                        _ => gens::gen_name(src, &mut ctx),
                    };
                    if !n.clean() || !n.well_formed() {
                        return Ok(true);
                    }
                    n.to_wire()
                };
                let follow_ttl: Option<u32> = if sec != 0 && src.chance(100) { Some(src.u32()) } else { None };
                self.trace.push(format!("set_raw_name(sec{} #{} {} {}) then-set_rr_ttl={:?}", sec, k, kind, hex(&raw[..raw.len().min(40)]), follow_ttl));
                let pp = &mut self.pp;
                let obs = catch(|| {
                    if sec == 0 {
                        let mut c = pp.into_iter_question()?;
                        let mut o = CursorObs::default();
                        o.result = c.set_raw_name(&raw).map_err(estr);
                        o.tombstone = c.is_tombstone();
                        if o.result.is_ok() {
                            o.name = Some(c.name());
                            o.offset = c.offset();
                            o.next = Some(c.next().map(|n| (n.name(), n.offset().unwrap_or(usize::MAX))));
                        }
                        Some(o)
                    } else {
                        with_rr(pp, sec, k, false, |mut c| {
                            let mut o = CursorObs::default();
                            o.result = c.set_raw_name(&raw).map_err(estr);
                            o.tombstone = c.is_tombstone();
                            if o.result.is_ok() {
                                // keep using the same cursor: reads, then optionally a TTL write
                                o.ttl_after = Some(c.rr_ttl());
                                o.type_after = Some(c.rr_type());
                                if let Some(t) = follow_ttl {
                                    c.set_rr_ttl(t);
                                }
                                o.name = Some(c.name());
                                o.offset = c.offset();
                                o.next = Some(c.next().map(|n| (n.name(), n.offset().unwrap_or(usize::MAX))));
                            }
                            o
                        })
                    }
                });
                let obs = match obs {
                    Err(pm) => {
                        let p = if expect_ok { id } else { "C10" };
                        if !expect_ok && self.which != Which::C10 {
                            return Err(Failure::new("SKIP", ""));
                        }
                        fail!(format!("{} set_raw_name-panic {}", p, panic_sig(&pm)), "{} {}", pm, short(&self.ctx()))
                    }
                    Ok(None) => fail!(format!("{} record-not-reachable", id), "{}", self.ctx()),
                    Ok(Some(o)) => o,
                };
                match (&obs.result, expect_ok) {
                    (Ok(()), true) => {
                        let new = Name::from_wire(&raw).unwrap();
                        let growing = new.wire_len() as isize - cur.wire_len() as isize;
                        if sec == 0 {
                            self.model.qd[0].name = new.clone();
                        } else {
                            let rec = &mut self.model.section_mut(sec)[mi];
                            rec.owner = new.clone();
                            // the same cursor still designates that record
                            let (want_ttl, want_type) = (rec.ttl, rec.rtype);
                            ensure!(obs.ttl_after == Some(want_ttl) && obs.type_after == Some(want_type), format!("{} cursor-reads-wrong-record-after-set_raw_name", id), "through the cursor: ttl {:?} type {:?}; the record has ttl {} type {}; {}", obs.ttl_after, obs.type_after, want_ttl, want_type, short(&self.ctx()));
                            if let Some(t) = follow_ttl {
                                rec.ttl = t;
                                self.st.class("op:set_raw_name-then-set_rr_ttl-same-cursor");
                            }
                        }
                        self.note_mutation(growing != 0);
                        self.st.class(if growing > 0 {
                            "op:set_raw_name-grow"
                        } else if growing < 0 {
                            "op:set_raw_name-shrink"
                        } else {
                            "op:set_raw_name-same-length"
                        });
                        if sec == 0 {
                            self.st.class("op:set_raw_name-question");
                        }
                        if self.which == Which::C08 {
                            // the cursor still designates that record and advancing yields the follower
                            let bytes = self.bytes()?;
                            if let Ok(d) = refdec::decode(&bytes, refdec::Opts { allow_no_question: true }) {
                                let (start, follower) = if sec == 0 {
                                    (d.q.as_ref().map(|q| q.start), None)
                                } else {
                                    let vis = visible(&d.msg, sec, false);
                                    let here = vis.get(k).map(|&i| d.recs[sec - 1][i].start);
                                    let foll = vis.get(k + 1).map(|&i| (d.msg.section(sec)[i].owner.to_text_lower(), d.recs[sec - 1][i].start));
                                    (here, foll)
                                };
                                ensure!(obs.name.as_deref() == Some(&new.to_text_lower()[..]), "C08 cursor-name-after-set_raw_name", "cursor reads {:?} want {:?}; {}", obs.name, new.to_text_lower(), short(&self.ctx()));
                                ensure!(obs.offset == start, "C08 cursor-offset-after-set_raw_name", "cursor at {:?}, record starts at {:?}; {}", obs.offset, start, short(&self.ctx()));
                                ensure!(obs.next == Some(follower.clone()), "C08 cursor-next-after-set_raw_name", "next() yields {:?}, follower is {:?}; {}", obs.next, follower, short(&self.ctx()));
                            }
                        }
                    }
                    (Err(_), false) => {
                        failed = true;
                        self.st.class(&format!("fail:set_raw_name-{}", kind));
                    }
                    (Ok(()), false) => {
                        // accepted although invalid: the packet is expected to be broken now; let post() decide
                        if let Some(n) = Name::from_wire(&raw) {
                            if sec == 0 {
                                self.model.qd[0].name = n;
                            } else {
                                self.model.section_mut(sec)[mi].owner = n;
                            }
                        }
                        if self.which == Which::C10 {
                            fail!(format!("C10 invalid-name-accepted {}", kind), "set_raw_name accepted an invalid name; {}", short(&self.ctx()));
                        }
                        self.note_mutation(true);
                    }
                    (Err(e), true) => {
                        // growing beyond 65535 bytes is a legitimate failure
                        if e.starts_with("PacketTooLarge|") {
                            failed = true;
                            self.st.class("fail:set_raw_name-too-large");
                        } else {
                            fail!(format!("{} set_raw_name-fails", id), "{:?} {}", e, short(&self.ctx()));
                        }
                    }
                }
            }
            4 => {
                // delete (any section incl. the question; OPT through the including-OPT cursor)
                let sec = src.below(4);
                let incl_opt = sec == 3 && src.chance(128);
                let (k, mi) = if sec == 0 {
                    if !has_q {
                        return Ok(true);
                    }
                    (0, 0)
                } else {
                    let vis = visible(&self.model, sec, incl_opt);
                    if vis.is_empty() {
                        return Ok(true);
                    }
                    let k = src.below(vis.len());
                    (k, vis[k])
                };
                let twice = want_fail || src.chance(60);
                let then_set_name = want_fail && src.chance(128);
                self.trace.push(format!("delete(sec{} #{} incl_opt={} twice={} then_set_name={})", sec, k, incl_opt, twice, then_set_name));
                let pp = &mut self.pp;
                let obs = catch(|| {
                    if sec == 0 {
                        let mut c = pp.into_iter_question()?;
                        let mut o = CursorObs::default();
                        o.result = c.delete().map_err(|e| e.to_string());
                        if twice {
                            o.second = Some(if then_set_name { c.set_raw_name(&[1, b'z', 0]).map_err(estr) } else { c.delete().map_err(estr) });
                        }
                        o.tombstone = c.is_tombstone();
                        Some(o)
                    } else {
                        with_rr(pp, sec, k, incl_opt, |mut c| {
                            let mut o = CursorObs::default();
                            o.result = c.delete().map_err(|e| e.to_string());
                            if twice {
                                o.second = Some(if then_set_name { c.set_raw_name(&[1, b'z', 0]).map_err(estr) } else { c.delete().map_err(estr) });
                            }
                            o.tombstone = c.is_tombstone();
                            o
                        })
                    }
                });
                let obs = match obs {
                    Err(pm) => fail!(format!("{} delete-panic {}", id, panic_sig(&pm)), "{} {}", pm, short(&self.ctx())),
                    Ok(None) => fail!(format!("{} record-not-reachable", id), "{}", self.ctx()),
                    Ok(Some(o)) => o,
                };
                if let Err(e) = &obs.result {
                    fail!(format!("{} delete-fails", id), "{:?} {}", e, short(&self.ctx()));
                }
                ensure!(obs.tombstone, format!("{} cursor-not-tombstone-after-delete", id), "{}", self.ctx());
                if sec == 0 {
                    self.model.qd.clear();
                    self.st.class("op:delete-question");
                } else {
                    let r = self.model.section_mut(sec).remove(mi);
                    if r.is_opt() {
                        self.st.class("op:delete-opt");
                    }
                    self.st.class("op:delete");
                }
                self.note_mutation(true);
                if let Some(second) = &obs.second {
                    match second {
                        Ok(()) => {
                            if self.which == Which::C10 {
                                fail!("C10 operation-on-tombstone-succeeds", "second operation through the cursor of a deleted record returned Ok; {}", short(&self.ctx()));
                            }
                        }
                        Err(e) => {
                            if self.which == Which::C10 {
                                ensure!(e.starts_with("VoidRecord|"), "C10 tombstone-error-kind", "expected VoidRecord, got {:?}; {}", e, self.ctx());
                            }
                            self.st.class("fail:op-on-tombstone");
                            self.note_failure();
                            // the effect of the (successful) delete is checked by post(); the failed
                            // second op must not have changed anything beyond it: covered by C09's model
                        }
                    }
                }
            }
            5 => {
                // insert (text or pre-built RR) into any section
                let sec = if want_fail && has_q && src.chance(100) { 0 } else { src.below(4) };
                if sec == 0 && !has_q && src.chance(90) {
                    // question given as a record text (what add_to_question of the C table does):
                    // the question is the record's name, type and class
                    let tc = rrtext::gen_valid(src, &TextOpts { max_wire: 120, ..TextOpts::default() });
                    if self.model.to_wire_plain().len() + tc.rec.to_wire().len() > 8192 || tc.rec.rtype == T_TXT && tc.text.len() > 600 {
                        return Ok(true);
                    }
                    self.trace.push(format!("insert_rr_from_string(question {:?})", tc.text.chars().take(100).collect::<String>()));
                    let pp = &mut self.pp;
                    let r = catch(|| pp.insert_rr_from_string(Section::Question, &tc.text).map_err(|e| e.to_string()));
                    match r {
                        Err(pm) => fail!(format!("{} insert-panic {}", id, panic_sig(&pm)), "{} {}", pm, short(&self.ctx())),
                        Ok(Err(e)) => fail!(format!("{} insert-question-fails", id), "{:?} {}", e, short(&self.ctx())),
                        Ok(Ok(())) => {
                            self.model.qd.push(Question { name: tc.rec.owner.clone(), qtype: tc.rec.rtype, qclass: 1 });
                            self.note_mutation(true);
                            self.st.class("op:insert-question-from-record-text");
                        }
                    }
                } else if sec == 0 {
                    // question: RR::new_question
                    let mut f = vec![];
                    let (text, name) = rrtext::gen_host(src, 200, &mut f, true);
                    let (ty, tnum) = *src.pick(&[(Type::A, 1u16), (Type::AAAA, 28), (Type::MX, 15), (Type::TXT, 16), (Type::ANY, 255)]);
                    self.trace.push(format!("insert_rr(question {} type {})", text, tnum));
                    let rr = match dgen::RR::new_question(text.as_bytes(), ty, Class::IN) {
                        Ok(rr) => rr,
                        Err(e) => fail!(format!("{} new_question-fails", id), "{:?} for {:?}", e.to_string(), text),
                    };
                    let pp = &mut self.pp;
                    let r = catch(|| pp.insert_rr(Section::Question, rr).map_err(estr));
                    let r = match r {
                        Err(pm) => {
                            if has_q && self.which != Which::C10 {
                                return Err(Failure::new("SKIP", ""));
                            }
                            fail!(format!("{} insert-panic {}", if has_q { "C10" } else { id }, panic_sig(&pm)), "{} {}", pm, short(&self.ctx()))
                        }
                        Ok(r) => r,
                    };
                    match (r, has_q) {
                        (Ok(()), false) => {
                            self.model.qd.push(Question { name, qtype: tnum, qclass: 1 });
                            self.note_mutation(true);
                            self.st.class("op:insert-question");
                        }
                        (Err(_), true) => {
                            failed = true;
                            self.st.class("fail:second-question");
                        }
                        (Ok(()), true) => fail!("C10 second-question-accepted", "{}", self.ctx()),
                        (Err(e), false) => {
                            if e.starts_with("PacketTooLarge|") {
                                failed = true;
                            } else {
                                fail!(format!("{} insert-question-fails", id), "{:?} {}", e, short(&self.ctx()));
                            }
                        }
                    }
                } else {
                    if !qr && sec != 3 {
                        return Ok(true); // QR gating (domain restriction 1)
                    }
                    if src.chance(30) {
                        // a record built through the synthesis builders (RRHeader + RR::new / A::build / NS::build):
                        // labels of 1..64 bytes, i.e. up to one past what the wire format can hold
                        let k = src.range(1, 3);
                        let labels: Vec<Vec<u8>> = (0..k)
                            .map(|_| {
                                let l = *src.pick(&[1usize, 5, 30, 61, 62, 63, 64]);
                                (0..l).map(|_| *src.pick(b"abcxyz0189")).collect()
                            })
                            .collect();
                        let maxl = labels.iter().map(|l| l.len()).max().unwrap_or(0);
                        let owner_text: Vec<u8> = labels.join(&b'.');
                        let ttl = src.u32();
                        let (rec, built): (Record, Result<Result<dgen::RR, String>, String>) = match src.below(3) {
                            0 => {
                                let ip = [src.u8(), src.u8(), src.u8(), src.u8()];
                                let h = dgen::RRHeader { name: owner_text.clone(), ttl, class: Class::IN, rr_type: Type::A };
                                (Record { owner: Name(labels.clone()), rtype: T_A, class: 1, ttl, rdata: Rdata::A(ip) }, catch(|| dgen::A::build(h, Ipv4Addr::from(ip)).map_err(|e| e.to_string())))
                            }
                            1 => {
                                let h = dgen::RRHeader { name: owner_text.clone(), ttl, class: Class::IN, rr_type: Type::NS };
                                let target = Name::from_dotted("ns1.example.com");
                                (Record { owner: Name(labels.clone()), rtype: T_NS, class: 1, ttl, rdata: Rdata::Name1(target) }, catch(|| dgen::NS::build(h, b"ns1.example.com".to_vec()).map_err(|e| e.to_string())))
                            }
                            _ => {
                                let data = vec![3, b'a', 0xc0, 0x0c];
                                let h = dgen::RRHeader { name: owner_text.clone(), ttl, class: Class::IN, rr_type: Type::TXT };
                                (Record { owner: Name(labels.clone()), rtype: T_TXT, class: 1, ttl, rdata: Rdata::Opaque(data.clone()) }, catch(|| dgen::RR::new(h, &data).map_err(|e| e.to_string())))
                            }
                        };
                        self.trace.push(format!("insert(sec{} built record, owner labels {:?}, type {})", sec, labels.iter().map(|l| l.len()).collect::<Vec<_>>(), rec.rtype));
                        let rr = match built {
                            Err(pm) => fail!(format!("{} builder-panic {}", id, panic_sig(&pm)), "{} {}", pm, short(&self.ctx())),
                            Ok(Err(e)) => {
                                // 63-byte labels are refused by the pinned library (C14 judges that); shorter ones must build
                                ensure!(maxl >= 63, format!("{} build-of-valid-record-fails", id), "{:?} {}", e, short(&self.ctx()));
                                self.st.class("note:builder-refused-long-label");
                                return Ok(true);
                            }
                            Ok(Ok(rr)) => rr,
                        };
                        ensure!(maxl <= 63, format!("{} builder-accepted-a-label-over-63-bytes", id), "RR::new/build returned Ok for an owner with a {}-byte label; {}", maxl, short(&self.ctx()));
                        ensure!(rr.packet == rec.to_wire(), format!("{} built-record-differs", id), "got {} want {}; {}", hex_abbrev(&rr.packet), hex_abbrev(&rec.to_wire()), short(&self.ctx()));
                        let plain_len = self.model.to_wire_plain().len();
                        let too_large = plain_len + rr.packet.len() > 8192;
                        let pp = &mut self.pp;
                        let r = match catch(|| pp.insert_rr(section_of(sec), rr).map_err(estr)) {
                            Err(pm) => fail!(format!("{} insert-panic {}", if too_large { "C10" } else { id }, panic_sig(&pm)), "{} {}", pm, short(&self.ctx())),
                            Ok(r) => r,
                        };
                        match r {
                            Ok(()) => {
                                if too_large {
                                    ensure!(self.which != Which::C10, "C10 size-limit-bypassed", "built record inserted although the packet exceeds 8192 bytes; {}", short(&self.ctx()));
                                    return Err(Failure::new("SKIP", ""));
                                }
                                self.model.section_mut(sec).push(rec);
                                self.note_mutation(true);
                                self.st.class("op:insert-built-record");
                            }
                            Err(e) => {
                                ensure!(too_large, format!("{} insert-of-built-record-fails", id), "{:?} {}", e, short(&self.ctx()));
                                failed = true;
                                self.st.class("fail:packet-too-large");
                            }
                        }
                        return self.post(src, failed, &before, &before_bytes).map(|_| true);
                    }
                    let tc = rrtext::gen_valid(src, &TextOpts::default());
                    let (text, expect_parse_ok, kind) = if want_fail && src.chance(40) {
                        // two records in one text: a complete valid record, a line break, then one that is
                        // refused - the call must refuse the whole text and insert nothing
                        let (t2, _) = rrtext::damage_text(src, &tc);
                        let sep = *src.pick(&["\n", "\r\n", "\n\n"]);
                        (format!("{}{}{}", tc.text.trim_end(), sep, t2), false, "valid-record-then-line-break-then-refused-record")
                    } else if want_fail && src.chance(128) {
                        let (t, k) = rrtext::damage_text(src, &tc);
                        (t, false, k)
                    } else {
                        (tc.text.clone(), true, "valid")
                    };
                    // whether the text itself synthesises is C13's business; here it only decides which failure is expected
                    let expect_parse_ok = expect_parse_ok && matches!(catch(|| dgen::RR::from_string(&text).is_ok()), Ok(true));
                    if kind == "valid" && !expect_parse_ok {
                        self.st.class("note:valid-text-refused-by-synthesis");
                    }
                    let via_rr = expect_parse_ok && src.chance(100);
                    self.trace.push(format!("insert(sec{} {:?} via_rr={} kind={})", sec, short(&text).chars().take(120).collect::<String>(), via_rr, kind));
                    let plain_len = self.model.to_wire_plain().len();
                    let rr_len = tc.rec.to_wire().len();
                    let pp = &mut self.pp;
                    let r = catch(|| {
                        if via_rr {
                            let rr = dgen::RR::from_string(&text).map_err(estr)?;
                            pp.insert_rr(section_of(sec), rr).map_err(estr)
                        } else {
                            pp.insert_rr_from_string(section_of(sec), &text).map_err(estr)
                        }
                    });
                    let r = match r {
                        Err(pm) => {
                            let expected_fail = !expect_parse_ok || plain_len + rr_len > 8192;
                            if expected_fail && self.which != Which::C10 {
                                return Err(Failure::new("SKIP", ""));
                            }
                            fail!(format!("{} insert-panic {}", if expected_fail { "C10" } else { id }, panic_sig(&pm)), "{} {}", pm, short(&self.ctx()))
                        }
                        Ok(r) => r,
                    };
                    let too_large = plain_len + rr_len > 8192;
                    match r {
                        Ok(()) => {
                            if !expect_parse_ok {
                                // C13's business whether a damaged text is accepted; here only consistency matters
                                return Err(Failure::new("SKIP", ""));
                            }
                            let now = self.bytes()?.len();
                            if self.which == Which::C10 {
                                ensure!(now <= 8192, "C10 size-limit-bypassed", "packet is {} bytes after a successful insert (was {} uncompressed + {}); {}", now, plain_len, rr_len, short(&self.ctx()));
                                ensure!(!too_large, "C10 size-limit-bypassed", "insert succeeded although {} + {} > 8192; {}", plain_len, rr_len, short(&self.ctx()));
                            } else if too_large {
                                return Err(Failure::new("SKIP", ""));
                            }
                            self.model.section_mut(sec).push(tc.rec.clone());
                            self.note_mutation(true);
                            self.st.class("op:insert");
                            if plain_len + rr_len > 8100 {
                                self.st.class("op:insert-near-limit");
                            }
                        }
                        Err(e) => {
                            failed = true;
                            if expect_parse_ok {
                                if too_large {
                                    if self.which == Which::C10 {
                                        ensure!(e.starts_with("PacketTooLarge|"), "C10 size-limit-error-kind", "expected PacketTooLarge, got {:?}; {}", e, self.ctx());
                                    }
                                    self.st.class("fail:packet-too-large");
                                    if before_bytes.len() > 8192 {
                                        self.st.class("fail:packet-too-large-from-above-8192");
                                    }
                                } else {
                                    // a valid text refused: C13's business (e.g. boundary names); not an effect violation
                                    self.st.class("fail:valid-text-refused");
                                }
                            } else {
                                self.st.class("fail:malformed-text");
                            }
                        }
                    }
                }
            }
            6 => {
                // rename (in a questionless state the re-parse legitimately fails: then nothing may change)
                let a = gen_rename_args(src, &self.model);
                if !a.source.clean() || !a.target.clean() || !a.source.well_formed() || !a.target.well_formed() {
                    return Ok(true);
                }
                if want_fail && src.chance(128) {
                    // an invalid name as target or source: whatever the call reports, an error must leave
                    // the message and the object untouched (and the call must not crash)
                    let bad: Vec<u8> = match src.below(7) {
                        0 => vec![3, b'a', b'.', b'b', 3, b'c', b'o', b'm', 0],
                        1 => vec![1, b'a', 0xc0, 0x0c],
                        2 => vec![5, b'a', b'b'],
                        3 => {
                            let mut v = vec![64u8];
                            v.extend(std::iter::repeat(b'a').take(64));
                            v.push(0);
                            v
                        }
                        4 => vec![1, b'a', 0, b'x', b'y'],
                        5 => vec![2, b'a', 0, 0],
                        _ => vec![1, 0x07, 0],
                    };
                    let (tw, sw) = if src.chance(128) { (bad.clone(), a.source.to_wire()) } else { (a.target.to_wire(), bad.clone()) };
                    self.trace.push(format!("rename(invalid argument target={} source={} suffix={})", hex(&tw), hex(&sw), a.suffix));
                    let pp = &mut self.pp;
                    let r = catch(|| pp.rename_with_raw_names(&tw, &sw, a.suffix).map_err(|e| e.to_string()));
                    match r {
                        Err(pm) => {
                            if self.which != Which::C10 {
                                return Err(Failure::new("SKIP", ""));
                            }
                            fail!(format!("C10 rename-panic-on-invalid-name {}", panic_sig(&pm)), "{} {}", pm, short(&self.ctx()))
                        }
                        Ok(Ok(())) => return Err(Failure::new("SKIP", "")),
                        Ok(Err(_)) => {
                            self.st.class("fail:rename-invalid-name");
                            self.note_failure();
                            self.post(src, true, &before, &before_bytes)?;
                            return Ok(true);
                        }
                    }
                }
                self.trace.push(format!("rename(target={} source={} suffix={})", a.target.show(), a.source.show(), a.suffix));
                let expected = model_rename(&self.model, &a.target, &a.source, a.suffix);
                let (tw, sw) = (a.target.to_wire(), a.source.to_wire());
                let pp = &mut self.pp;
                let r = catch(|| pp.rename_with_raw_names(&tw, &sw, a.suffix).map_err(|e| e.to_string()));
                let r = match r {
                    Err(pm) => fail!(format!("{} rename-panic {}", id, panic_sig(&pm)), "{} {}", pm, short(&self.ctx())),
                    Ok(r) => r,
                };
                match (r, expected) {
                    (Err(_), Ok(_)) if !has_q => {
                        failed = true;
                        self.st.class("fail:rename-without-question");
                    }
                    (Ok(()), Ok((m, _))) => {
                        self.model = m;
                        self.ci = true;
                        self.note_mutation(true);
                        self.st.class("op:rename");
                    }
                    (Err(_), Err(())) => {
                        failed = true;
                        self.st.class("fail:rename-overflow");
                    }
                    (Ok(()), Err(())) => {
                        if self.which == Which::C10 {
                            fail!("C10 rename-overflow-accepted", "{}", short(&self.ctx()));
                        }
                        return Err(Failure::new("SKIP", ""));
                    }
                    (Err(e), Ok(_)) => fail!(format!("{} rename-fails", id), "{:?} {}", e, short(&self.ctx())),
                }
            }
            7 => {
                // recompute (documented for use after an in-place decompression)
                if self.pp.maybe_compressed && before.has_pointer() {
                    return Ok(true);
                }
                if !has_q {
                    return Ok(true);
                }
                self.trace.push("recompute()".into());
                let pp = &mut self.pp;
                match catch(|| pp.recompute().map_err(|e| e.to_string())) {
                    Err(pm) => fail!(format!("{} recompute-panic {}", id, panic_sig(&pm)), "{} {}", pm, short(&self.ctx())),
                    Ok(Err(e)) => fail!(format!("{} recompute-fails", id), "{:?} {}", e, short(&self.ctx())),
                    Ok(Ok(())) => {}
                }
                self.note_mutation(false);
                self.st.class("op:recompute");
            }
            8 => {
                // in-place decompression through an iterator, then reads and next
                if !has_q {
                    return Ok(true);
                }
                let sec = src.below(4);
                let k = if sec == 0 {
                    0
                } else {
                    let vis = visible(&self.model, sec, false);
                    if vis.is_empty() {
                        return Ok(true);
                    }
                    src.below(vis.len())
                };
                self.trace.push(format!("iter.uncompress(sec{} #{})", sec, k));
                let was_compressed = self.pp.maybe_compressed;
                let pp = &mut self.pp;
                let obs = catch(|| {
                    if sec == 0 {
                        let mut c = pp.into_iter_question()?;
                        let mut o = CursorObs::default();
                        o.result = c.uncompress().map_err(|e| e.to_string());
                        if o.result.is_ok() {
                            o.name = Some(c.name());
                            o.offset = c.offset();
                            o.next = Some(c.next().map(|n| (n.name(), n.offset().unwrap_or(usize::MAX))));
                        }
                        Some(o)
                    } else {
                        with_rr(pp, sec, k, false, |mut c| {
                            let mut o = CursorObs::default();
                            o.result = c.uncompress().map_err(|e| e.to_string());
                            if o.result.is_ok() {
                                o.name = Some(c.name());
                                o.offset = c.offset();
                                o.next = Some(c.next().map(|n| (n.name(), n.offset().unwrap_or(usize::MAX))));
                            }
                            o
                        })
                    }
                });
                let obs = match obs {
                    Err(pm) => fail!(format!("{} iter-uncompress-panic {}", id, panic_sig(&pm)), "{} {}", pm, short(&self.ctx())),
                    Ok(None) => fail!(format!("{} record-not-reachable", id), "{}", self.ctx()),
                    Ok(Some(o)) => o,
                };
                if let Err(e) = &obs.result {
                    fail!(format!("{} iter-uncompress-fails", id), "{:?} {}", e, short(&self.ctx()));
                }
                if self.which == Which::C08 {
                    let bytes = self.bytes()?;
                    if let Ok(d) = refdec::decode(&bytes, refdec::Opts { allow_no_question: true }) {
                        let (name, start, follower) = if sec == 0 {
                            (d.msg.qd[0].name.to_text_lower(), d.q.as_ref().map(|q| q.start), None)
                        } else {
                            let vis = visible(&d.msg, sec, false);
                            let i = vis[k];
                            let foll = vis.get(k + 1).map(|&j| (d.msg.section(sec)[j].owner.to_text_lower(), d.recs[sec - 1][j].start));
                            (d.msg.section(sec)[i].owner.to_text_lower(), Some(d.recs[sec - 1][i].start), foll)
                        };
                        ensure!(obs.name.as_deref() == Some(&name[..]), "C08 cursor-name-after-uncompress", "cursor reads {:?} want {:?}; {}", obs.name, name, short(&self.ctx()));
                        ensure!(obs.offset == start, "C08 cursor-offset-after-uncompress", "cursor at {:?}, record starts at {:?}; {}", obs.offset, start, short(&self.ctx()));
                        ensure!(obs.next == Some(follower.clone()), "C08 cursor-next-after-uncompress", "next() yields {:?}, follower is {:?}; {}", obs.next, follower, short(&self.ctx()));
                    }
                }
                self.note_mutation(was_compressed && before.has_pointer());
                self.st.class("op:iter-uncompress");
            }
            _ => {
                // read-only getters in between (cache warmers)
                self.trace.push("getters".into());
                let o = src.u8();
                let pp = &mut self.pp;
                if let Err(pm) = catch(|| crate::view::observe_summary(pp, o)) {
                    fail!(format!("{} getter-panic {}", id, panic_sig(&pm)), "{} {}", pm, short(&self.ctx()));
                }
                if self.size_changed {
                    self.size_changed_then_used = true;
                }
                self.st.class("op:getters");
            }
        }
        if failed {
            self.note_failure();
        }
        self.post(src, failed, &before, &before_bytes)?;
        Ok(true)
    }
}

/// Start state: an accepted packet (possibly > 8192 bytes) or a synthesised one.
fn gen_start(src: &mut Src, big: bool) -> Option<(ParsedPacket, Message, &'static str)> {
    match src.weighted(&[10, 1, 1]) {
        0 => {
            let o = GenOpts { big, many: false, max_small: 4, filler_chance: 140, header_names: false, ..GenOpts::default() };
            let (bytes, d, _) = gen_accepted(src, &o)?;
            // header setters would rewrite names that point into the header
            if d.all_name_infos().iter().any(|n| n.ptrs.iter().any(|p| p.1 < 12)) {
                return None;
            }
            let pp = match lib_parse(&bytes) {
                Ok(Ok(p)) => p,
                _ => return None,
            };
            let tag = if d.has_pointer() { "start:compressed" } else { "start:pointer-free" };
            Some((pp, d.msg, tag))
        }
        1 => {
            let pp = catch(ParsedPacket::empty).ok()?;
            let m = Message { id: pp.tid(), flags: 0x0100, ..Default::default() };
            Some((pp, m, "start:empty"))
        }
        _ => {
            let mut f = vec![];
            let (text, name) = rrtext::gen_host(src, 200, &mut f, true);
            let pp = catch(|| dgen::query(text.as_bytes(), Type::A, Class::IN).map_err(|e| e.to_string())).ok()?.ok()?;
            let m = Message { id: pp.tid(), flags: 0x0100, qd: vec![Question { name, qtype: 1, qclass: 1 }], ..Default::default() };
            Some((pp, m, "start:query"))
        }
    }
}

fn ops_case(which: Which, data: &[u8], st: &mut Stats) -> PResult {
    let t0 = std::time::Instant::now();
    let r = ops_case_inner(which, data, st);
    let ms = t0.elapsed().as_secs_f64() * 1000.0;
    st.max("slowest_case_ms", ms);
    if ms > 200.0 && std::env::var("VERIF_DEBUG_SLOW").is_ok() {
        eprintln!("slow case {:.0} ms: {}", ms, crate::model::hex(data));
    }
    r
}

fn ops_case_inner(which: Which, data: &[u8], st: &mut Stats) -> PResult {
    let mut src = Src::new(data);
    let inject = which == Which::C10;
    // packets beyond 8192 bytes (C10: size limit) and beyond 16383 bytes (all: pointer reach)
    let big = if which == Which::C10 { src.chance(60) } else { src.chance(14) };
    let (pp, model, start) = match gen_start(&mut src, big) {
        Some(x) => x,
        None => {
            st.class("skipped:no-start-state");
            return Ok(());
        }
    };
    st.class(start);
    let start_len = pp.packet.as_ref().map(|p| p.len()).unwrap_or(0);
    if start_len > 8192 {
        st.class("start:>8192");
    }
    let start_hex = hex_abbrev(pp.packet.as_deref().unwrap_or(&[]));
    let nsteps = src.range(1, 25);
    let mut it = Interp { which, pp, model, ci: false, trace: vec![], st, size_changed_then_used: false, size_changed: false, failed_after_mutation: false, mutated: false, steps: 0 };
    // synthesised packets: the initial object must already match its bytes
    let mut res: PResult = Ok(());
    for _ in 0..nsteps {
        match it.step(&mut src, inject) {
            Ok(true) => {}
            Ok(false) => break,
            Err(f) if f.sig == "SKIP" => break,
            Err(f) => {
                res = Err(Failure::new(f.sig, format!("{}\nstart={} ({})", f.detail, start_hex, start)));
                break;
            }
        }
    }
    let nontrivial = match which {
        Which::C10 => it.failed_after_mutation,
        _ => it.size_changed_then_used,
    };
    let trace = it.trace.clone();
    let steps = it.steps;
    drop(it);
    st.class_n("steps", steps as u64);
    if res.is_ok() && nontrivial {
        st.nontrivial(&(start_hex.clone(), trace.clone()));
        if st.wants_sample(start) {
            st.sample(start, json!({"start": start_hex, "ops": trace}));
        }
    }
    res
}

pub fn replay_c08(data: &[u8]) -> PResult {
    ops_case(Which::C08, data, &mut Stats::default())
}
pub fn replay_c09(data: &[u8]) -> PResult {
    ops_case(Which::C09, data, &mut Stats::default())
}
pub fn replay_c10(data: &[u8]) -> PResult {
    ops_case(Which::C10, data, &mut Stats::default())
}

const ASSUMPTIONS: &[&str] = &[
    "QR gating: set_response(false)/set_flags with QR clear and inserts into answer/authority are generated only when the result has no answer/authority records with QR=0",
    "questionless states (after deleting the question) are judged by the reference decoder with qdcount=0 allowed; recompute and iterator uncompress (which re-parse) are not generated there; a rename may fail there (the re-parse needs a question) and must then change nothing",
    "the OPT pseudo-record is only deleted, never given a TTL/address/owner",
    "recompute() is called only when maybe_compressed is false or the bytes are pointer-free (documented use)",
    "on a deleted record's cursor only delete/set_raw_name/is_tombstone are called",
    "rename arguments are well-formed clean non-root names",
    "start packets have no name pointing into the 12 header bytes (the header setters would legitimately rewrite such names)",
];

fn ops_rule(which: Which) -> String {
    let common = "state machine: start = accepted packet (compressed or pointer-free, OPT anywhere, sometimes > 8192 bytes) or ParsedPacket::empty() or gen::query(); 1..25 steps drawn state-dependently from header setters, set_rr_ttl, set_rr_ip, set_raw_name (grow/shrink/same length/root; question and all sections), delete (all sections incl. question and OPT), insert_rr / insert_rr_from_string (all sections; also records built through RRHeader + RR::new / A::build / NS::build with owner labels of 1..64 bytes), rename_with_raw_names, recompute, iterator uncompress + reads + next, getters (cache warmers). After EVERY step the bytes are decoded by the reference decoder. ";
    match which {
        Which::C08 => format!("{}Oracle: bytes accepted by the parser (when a question is present); every public offset/count/EDNS field, the three question getters, flags and all six walks equal the reference view of those bytes; maybe_compressed=false => no pointer; a cursor that set a name / decompressed still reads that record at its new offset and next() yields the follower. Non-trivial: a size-changing op followed by another read or mutation; distinct = hash(start, trace).", common),
        Which::C09 => format!("{}Oracle: the decoded message equals the abstract model updated by the specification of each op (exact; case-insensitive on names from the first rename on). Non-trivial as C08.", common),
        Which::C10 => format!("{}Failing ops injected: second question, invalid names (64-byte label, pointer, truncated, 256 bytes, empty, forbidden character), operations on a tombstone, malformed record text, overflowing rename, inserts crossing 8192 from below and from above. Oracle: after an Err the decoded message equals the one before and the full C08 view check passes; VoidRecord / PacketTooLarge kinds; no successful insert leaves more than 8192 bytes. Non-trivial: a failing op after a successful mutation.", common),
    }
}

/// Fixed regression scripts (direct API calls, no generator involved).
fn regression_scripts(which: Which) -> Vec<(&'static str, Box<dyn Fn() -> PResult>)> {
    use crate::enc::{encode, Layout};
    use crate::props::read_props::opt_rec;
    let a_rec = |o: &str, ttl: u32| Record { owner: Name::from_dotted(o), rtype: T_A, class: 1, ttl, rdata: Rdata::A([1, 2, 3, 4]) };
    let q = Question { name: Name::from_dotted("example.com"), qtype: 1, qclass: 1 };
    let base = Message { id: 7, flags: 0x8180, qd: vec![q.clone()], an: vec![a_rec("www.example.com", 1), a_rec("ftp.example.com", 2)], ar: vec![a_rec("x.example.com", 3), opt_rec(), a_rec("y.example.com", 4)], ..Default::default() };
    let compressed = {
        // a deterministic compressed encoding: high bytes make the encoder compress everywhere
        let data = vec![0xffu8; 400];
        let mut s = Src::new(&data);
        encode(&base, Layout::Random(&mut s)).bytes
    };
    let literal = encode(&base, Layout::Literal).bytes;
    let mut v: Vec<(&'static str, Box<dyn Fn() -> PResult>)> = vec![];
    // scripted op bytes: we drive the interpreter with hand-made choice strings is brittle; use direct calls
    let mk = move |bytes: Vec<u8>, f: fn(&mut ParsedPacket)| -> Box<dyn Fn() -> PResult> {
        Box::new(move || {
            let mut pp = match lib_parse(&bytes) {
                Ok(Ok(p)) => p,
                _ => return Ok(()),
            };
            match catch(|| f(&mut pp)) {
                Err(pm) => fail!(format!("{} regression-panic {}", which.id(), panic_sig(&pm)), "{}", pm),
                Ok(()) => {}
            }
            let b = pp.packet.clone().ok_or_else(|| Failure::new(format!("{} object-holds-no-packet", which.id()), "regression"))?;
            let d = match refdec::decode(&b, refdec::Opts { allow_no_question: true }) {
                Ok(d) => d,
                Err(r) => fail!(format!("{} bytes-not-well-formed {}", which.id(), r.clause), "regression: {:?} bytes={}", r, hex_abbrev(&b)),
            };
            if d.q.is_some() {
                ensure!(matches!(lib_parse(&b), Ok(Ok(_))), format!("{} bytes-rejected-by-parser", which.id()), "regression bytes={}", hex_abbrev(&b));
            }
            let r = catch(|| -> PResult {
                check_summary(&mut pp, &d, 0, which.id(), false)?;
                check_walks(&mut pp, &d, &b, 0, which.id())
            });
            match r {
                Err(pm) => fail!(format!("{} view-panic {}", which.id(), panic_sig(&pm)), "{}", pm),
                Ok(r) => r,
            }
        })
    };
    // D2: growing a name
    v.push(("grow-name-literal", mk(literal.clone(), |pp| {
        let mut c = pp.into_iter_answer().unwrap();
        c.set_raw_name(&Name::from_dotted("a.much.longer.name.example.org").to_wire()).unwrap();
    })));
    v.push(("grow-name-compressed", mk(compressed.clone(), |pp| {
        let mut c = pp.into_iter_answer().unwrap();
        c.set_raw_name(&Name::from_dotted("a.much.longer.name.example.org").to_wire()).unwrap();
    })));
    // D3: shrink/delete before OPT must shift offset_edns
    v.push(("delete-before-opt", mk(compressed.clone(), |pp| {
        let mut c = pp.into_iter_answer().unwrap();
        c.delete().unwrap();
    })));
    v.push(("shrink-name-before-opt", mk(literal.clone(), |pp| {
        let mut c = pp.into_iter_answer().unwrap();
        c.set_raw_name(&[1, b'z', 0]).unwrap();
    })));
    // D12: deleting OPT
    v.push(("delete-opt", mk(literal.clone(), |pp| {
        let c = pp.into_iter_additional_including_opt().unwrap();
        let mut c = c.next_including_opt().unwrap();
        assert_eq!(c.rr_type(), 41);
        c.delete().unwrap();
    })));
    // D15 / D20: question name change and delete, cache warm, compressed packet
    v.push(("set-question-name-compressed", mk(compressed.clone(), |pp| {
        let _ = pp.question();
        let mut c = pp.into_iter_question().unwrap();
        c.set_raw_name(&Name::from_dotted("other.org").to_wire()).unwrap();
    })));
    v.push(("delete-question-compressed", mk(compressed.clone(), |pp| {
        let _ = pp.question_raw0();
        let mut c = pp.into_iter_question().unwrap();
        c.delete().unwrap();
    })));
    // D16: iterator uncompress on a later record
    v.push(("iter-uncompress-second-answer", mk(compressed.clone(), |pp| {
        let c = pp.into_iter_answer().unwrap();
        let mut c = c.next().unwrap();
        c.uncompress().unwrap();
        assert_eq!(c.name(), b"ftp.example.com".to_vec());
    })));
    // D4: second question must fail without side effects
    if which == Which::C10 {
        v.push(("second-question", mk(literal.clone(), |pp| {
            let rr = dgen::RR::new_question(b"second.example", Type::A, Class::IN).unwrap();
            assert!(pp.insert_rr(Section::Question, rr).is_err());
        })));
        v.push(("forbidden-char-name", mk(literal.clone(), |pp| {
            let mut c = pp.into_iter_answer().unwrap();
            let _ = c.set_raw_name(&[3, b'a', b'.', b'b', 0]);
        })));
    }
    // insert into each section of a compressed packet with OPT in the middle
    v.push(("insert-answer", mk(compressed.clone(), |pp| {
        pp.insert_rr_from_string(Section::Answer, "new.example.com. 60 IN A 9.9.9.9").unwrap();
    })));
    v.push(("insert-authority", mk(compressed.clone(), |pp| {
        pp.insert_rr_from_string(Section::NameServers, "example.com. 60 IN NS ns.example.com.").unwrap();
    })));
    v.push(("insert-additional", mk(compressed, |pp| {
        pp.insert_rr_from_string(Section::Additional, "ns.example.com. 60 IN AAAA ::1").unwrap();
    })));
    v
}

fn check_ops(which: Which, ctx: &Ctx, known: &KnownFindings, quick: u64, thorough: u64, stream: u64) -> Report {
    let id = which.id();
    let mut rep = Report::new(id);
    let ks = known_sigs(known, id);
    rep.rule = ops_rule(which);
    rep.assumptions = ASSUMPTIONS.iter().map(|s| s.to_string()).collect();
    for (name, f) in regression_scripts(which) {
        let r = catch(|| f());
        rep.direct(name, r, &ks);
    }
    let prop = (1600usize, move |d: &[u8], st: &mut Stats| ops_case(which, d, st));
    let r = drive(&prop, ctx.cases(quick, thorough), ctx, stream, &ks);
    rep.absorb(r);
    rep
}

pub fn check_c08(ctx: &Ctx, known: &KnownFindings) -> Report {
    let mut rep = check_ops(Which::C08, ctx, known, 300_000, 4_000_000, 8);
    rep.require(&[
        "start:compressed", "start:pointer-free", "start:empty", "start:query", "op:header-setter", "op:set_rr_ttl", "op:set_rr_ip", "op:set_raw_name-grow", "op:set_raw_name-shrink",
        "op:set_raw_name-same-length", "op:set_raw_name-question", "op:delete", "op:delete-question", "op:delete-opt", "op:insert", "op:insert-question", "op:insert-question-from-record-text", "op:rename", "op:recompute", "op:iter-uncompress", "op:getters",
    ]);
    rep
}

pub fn check_c09(ctx: &Ctx, known: &KnownFindings) -> Report {
    let mut rep = check_ops(Which::C09, ctx, known, 400_000, 5_000_000, 9);
    rep.require(&["op:set_rr_ttl", "op:set_rr_ip", "op:set_raw_name-then-set_rr_ttl-same-cursor", "op:set_raw_name-grow", "op:set_raw_name-shrink", "op:delete", "op:delete-opt", "op:insert", "op:insert-built-record", "op:insert-question", "op:rename"]);
    rep
}

pub fn check_c10(ctx: &Ctx, known: &KnownFindings) -> Report {
    let mut rep = check_ops(Which::C10, ctx, known, 300_000, 4_000_000, 10);
    rep.require(&[
        "fail:second-question", "fail:set_raw_name-label-64", "fail:set_raw_name-pointer", "fail:set_raw_name-truncated", "fail:set_raw_name-name-256", "fail:set_raw_name-empty-slice",
        "fail:set_raw_name-forbidden-char", "fail:op-on-tombstone", "fail:malformed-text", "fail:rename-overflow", "fail:rename-invalid-name", "fail:rename-without-question", "fail:packet-too-large", "fail:packet-too-large-from-above-8192", "start:>8192", "op:insert-near-limit",
    ]);
    rep
}

//! C11: deleting records while iterating is safe, exact and terminates.

use crate::model::*;
use crate::props::known_sigs;
use crate::props::parse_props::lib_parse;
use crate::props::read_props::{check_summary, check_walks};
use crate::refdec;
use crate::runner::*;
use crate::src::Src;
use dnssector::{DNSIterable, RdataIterable, TypedIterable};
use serde_json::json;

pub struct DelCase {
    /// delete the question (through its own cursor) before walking the record section
    pub question_deleted_first: bool,
    /// before the walk: decompress the object through a same-name set_raw_name on the question,
    /// then rename example.com to itself (which re-compresses the packet)
    pub prehistory: bool,
    pub msg: Message,
    pub bytes: Vec<u8>,
    pub sec: usize,
    pub incl_opt: bool,
    /// TTLs (unique per record of the walked section) chosen for deletion
    pub delete: Vec<u32>,
    pub delete_opt: bool,
    pub desc: String,
}

const OPT_MARK: u32 = 0xffff_fff0;

#[allow(clippy::too_many_arguments)]
pub fn build_del_case(sec: usize, n: usize, mask: u32, opt_pos: usize, delete_opt: bool, incl_opt: bool, compressed: bool, layout_seed: &[u8]) -> DelCase {
    build_del_case_filler(sec, n, mask, opt_pos, delete_opt, incl_opt, compressed, layout_seed, 0)
}

/// `filler` > 0: a TXT record of that many data bytes is placed first in the answer section, so that
/// the walked records sit around offset 16383/16384 (the reach of compression pointers).
#[allow(clippy::too_many_arguments)]
pub fn build_del_case_filler(sec: usize, n: usize, mask: u32, opt_pos: usize, delete_opt: bool, incl_opt: bool, compressed: bool, layout_seed: &[u8], filler: usize) -> DelCase {
    build_del_case_full(sec, n, mask, opt_pos, delete_opt, incl_opt, compressed, layout_seed, filler, [2, 2, 2])
}

/// `others`: number of records in the sections that are not walked (index 0 = answer ...).
#[allow(clippy::too_many_arguments)]
pub fn build_del_case_full(sec: usize, n: usize, mask: u32, opt_pos: usize, delete_opt: bool, incl_opt: bool, compressed: bool, layout_seed: &[u8], filler: usize, others: [usize; 3]) -> DelCase {
    build_del_case_shaped(sec, n, mask, opt_pos, delete_opt, incl_opt, compressed, layout_seed, filler, others, 0)
}

/// `shape`: 0 = everyday names; 1 = smallest legal records (root question, root and one-label owners,
/// empty data: a 5-byte question, 11-byte records); 2 = largest names (255 bytes on the wire, 63-byte
/// labels); 3 = labels with bytes >= 0x80, blanks and `@`; 4 = everyday names, but every TXT record carries
/// 65535, 65530, 65525 ... data bytes (records longer than 16 bits can count, packets beyond 65535 bytes).
#[allow(clippy::too_many_arguments)]
pub fn build_del_case_shaped(sec: usize, n: usize, mask: u32, opt_pos: usize, delete_opt: bool, incl_opt: bool, compressed: bool, layout_seed: &[u8], filler: usize, others: [usize; 3], shape: usize) -> DelCase {
    use crate::enc::{encode, Layout};
    let long = |first: &[u8]| -> Name {
        // first label + 63-byte labels, 255 bytes on the wire
        let mut ls: Vec<Vec<u8>> = vec![first.to_vec()];
        let mut left = 255 - 1 - (first.len() + 1);
        while left > 0 {
            let l = if left >= 64 { 63 } else { left - 1 };
            ls.push(vec![b'l'; l]);
            left -= l + 1;
        }
        Name(ls)
    };
    let names: Vec<Name> = match shape {
        1 => vec![Name::root(), Name(vec![b"a".to_vec()]), Name::root(), Name(vec![b"b".to_vec(), b"a".to_vec()]), Name::root(), Name(vec![b"a".to_vec()])],
        2 => vec![long(b"example"), long(b"www"), long(b"a-b"), long(b"example"), long(b"mail"), long(b"x")],
        3 => vec![
            Name(vec![b"caf\xc3\xa9".to_vec(), b"example".to_vec()]),
            Name(vec![vec![0xc9, 0xe9, 0x80, 0xff], b"caf\xc3\xa9".to_vec(), b"example".to_vec()]),
            Name(vec![b"a b".to_vec(), b"a@b".to_vec(), b"example".to_vec()]),
            Name(vec![b"a`b".to_vec(), b"example".to_vec()]),
            Name(vec![vec![0xe9, 0xc9, 0x80, 0xff], b"caf\xc3\xa9".to_vec(), b"example".to_vec()]),
            Name(vec![vec![0xff]]),
        ],
        _ => ["example.com", "www.example.com", "a.b.example.com", "example.org", "mail.example.com", "x.org"].iter().map(|s| Name::from_dotted(s)).collect(),
    };
    let mk = |i: usize, ttl: u32| -> Record {
        let owner = names[i % names.len()].clone();
        match i % 4 {
            // an SRV record whose target is written as a pointer to the owner name of the first answer record
            // (opaque data for the library: it must survive every deletion byte for byte)
            0 if i % 8 == 4 && (shape == 0 || shape == 4) => {
                // (the pointer bytes are fixed up below, once the layout is known)
                Record { owner, rtype: T_SRV, class: 1, ttl, rdata: Rdata::Opaque(vec![0, 1, 0, 2, 0, 80, 3, b's', b'i', b'p', 0xc0, 0x0c]) }
            }
            0 => Record { owner, rtype: T_A, class: 1, ttl, rdata: Rdata::A([10, 0, 0, i as u8]) },
            1 => Record { owner, rtype: T_NS, class: 1, ttl, rdata: Rdata::Name1(names[(i + 2) % names.len()].clone()) },
            2 => Record { owner, rtype: T_MX, class: 1, ttl, rdata: Rdata::Mx(i as u16, names[(i + 1) % names.len()].clone()) },
            _ => Record {
                owner,
                rtype: T_TXT,
                class: 1,
                ttl,
                rdata: Rdata::Opaque(match shape {
                    1 => vec![],
                    // the largest data lengths there are: the record is longer than 65535 bytes
                    4 => vec![0xc0; 65535 - (i / 4) * 5],
                    _ => vec![3, b'a', 0xc0, 0x0c],
                }),
            },
        }
    };
    let mut m = Message { id: 0x1111, flags: 0x8180, qd: vec![Question { name: names[0].clone(), qtype: 255, qclass: 1 }], ..Default::default() };
    // the walked section gets n records with TTL 1000+i; the other sections two records each
    for s in 1..=3 {
        let cnt = if s == sec { n } else { others[s - 1] };
        for i in 0..cnt {
            let ttl = if s == sec { 1000 + i as u32 } else { 10 * s as u32 + i as u32 };
            m.section_mut(s).push(mk(i + s, ttl));
        }
    }
    if filler > 0 {
        m.an.insert(0, Record { owner: Name::from_dotted("filler.example.com"), rtype: T_TXT, class: 1, ttl: 5, rdata: Rdata::Opaque(vec![0xc0; filler]) });
    }
    // OPT: 0 absent, 1 first, 2 middle, 3 last
    if opt_pos > 0 {
        let mut o = crate::props::read_props::opt_rec();
        o.ttl = OPT_MARK;
        let at = match opt_pos {
            1 => 0,
            2 => m.ar.len() / 2,
            _ => m.ar.len(),
        };
        m.ar.insert(at, o);
    }
    let enc_once = |m: &Message| {
        if compressed {
            let mut s = Src::new(layout_seed);
            encode(m, Layout::Random(&mut s))
        } else {
            encode(m, Layout::Literal)
        }
    };
    let mut e = enc_once(&m);
    // SRV targets: point at the owner name of the nearest earlier record that has a non-root owner
    // (same data length, so the layout - a function of the seed - does not change)
    let mut patched = false;
    {
        let mut earlier: Option<usize> = None;
        for sidx in 0..3 {
            for ridx in 0..m.section(sidx + 1).len() {
                let off = e.recs[sidx][ridx].start;
                let r = &mut m.section_mut(sidx + 1)[ridx];
                if r.rtype == T_SRV {
                    if let (Some(t), Rdata::Opaque(d)) = (earlier, &mut r.rdata) {
                        if t < 16384 && d.len() == 12 {
                            d[10] = 0xc0 | (t >> 8) as u8;
                            d[11] = t as u8;
                            patched = true;
                        }
                    }
                }
                if !r.owner.is_root() && r.rtype != T_OPT {
                    earlier = Some(off);
                }
            }
        }
    }
    if patched {
        e = enc_once(&m);
    }
    let bytes = e.bytes;
    let delete: Vec<u32> = (0..n).filter(|i| mask & (1 << i) != 0).map(|i| 1000 + i as u32).collect();
    let delete_opt = delete_opt && opt_pos > 0 && incl_opt && sec == 3;
    let desc = format!("sec={} n={} delete={:?} opt_pos={} delete_opt={} incl_opt={} compressed={} filler={} others={:?} shape={}", sec, n, delete, opt_pos, delete_opt, incl_opt, compressed, filler, others, shape);
    DelCase { question_deleted_first: false, prehistory: false, msg: m, bytes, sec, incl_opt, delete, delete_opt, desc }
}

pub fn c11_oracle(c: &DelCase, st: &mut Stats) -> PResult {
    let mut pp = match lib_parse(&c.bytes) {
        Ok(Ok(p)) => p,
        Ok(Err(e)) => fail!("HARNESS: C11 packet rejected", "{} {}", e, hex_abbrev(&c.bytes)),
        Err(pm) => fail!(format!("C11 parse-panic {}", panic_sig(&pm)), "{}", pm),
    };
    let ctxs = || format!("{} prehistory={} packet={}", c.desc, c.prehistory, hex_abbrev(&c.bytes));
    let opts = refdec::Opts { allow_no_question: true };
    let sec = c.sec;
    if c.prehistory {
        let r = catch(|| -> Result<(), String> {
            // same name again: decompresses in place, changes nothing else
            let qname = c.msg.qd[0].name.clone();
            let qn = qname.to_wire();
            let rn = if qname.is_root() { Name::from_dotted("absent.invalid").to_wire() } else { qn.clone() };
            let mut q = pp.into_iter_question().ok_or("no question")?;
            q.set_raw_name(&qn).map_err(|e| e.to_string())?;
            pp.rename_with_raw_names(&rn, &rn, true).map_err(|e| e.to_string())
        });
        match r {
            Err(pm) => fail!(format!("C11 prehistory-panic {}", panic_sig(&pm)), "{} {}", pm, ctxs()),
            Ok(Err(e)) => fail!("C11 prehistory-fails", "{} {}", e, ctxs()),
            Ok(Ok(())) => {}
        }
        st.class("prehistory:decompress-then-rename");
    }
    if sec == 0 {
        // the question: one record, deleted or not
        let del = !c.delete.is_empty();
        if c.prehistory {
            // the object is already decompressed by an earlier edit elsewhere and the question getters were used
            let r = catch(|| -> Result<(), String> {
                let w = {
                    let a = pp.into_iter_answer().ok_or("no answer")?;
                    let mut w = vec![];
                    a.copy_raw_name(&mut w);
                    w
                };
                let mut a = pp.into_iter_answer().ok_or("no answer")?;
                a.set_raw_name(&w).map_err(|e| e.to_string())?;
                let _ = pp.question_raw0().map(|q| q.0.len());
                let _ = pp.question();
                Ok(())
            });
            match r {
                Err(pm) => fail!(format!("C11 prehistory-panic {}", panic_sig(&pm)), "{} {}", pm, ctxs()),
                Ok(Err(e)) => fail!("C11 prehistory-fails", "{} {}", e, ctxs()),
                Ok(Ok(())) => {}
            }
            st.class("prehistory:question-cache-warm");
        }
        let r = catch(|| -> PResult {
            let mut yields = 0;
            let mut it = pp.into_iter_question();
            while let Some(mut item) = it {
                yields += 1;
                ensure!(yields <= 3, "C11 walk-does-not-terminate", "{}", ctxs());
                if del {
                    ensure!(item.delete().is_ok(), "C11 delete-fails", "{}", ctxs());
                    match item.delete() {
                        Err(e) => {
                            let e = estr(e);
                            ensure!(e.starts_with("VoidRecord|"), "C11 second-delete-error-kind", "{:?}", e)
                        }
                        Ok(()) => fail!("C11 second-delete-succeeds", "{}", ctxs()),
                    }
                }
                it = item.next();
            }
            Ok(())
        });
        match r {
            Err(pm) => fail!(format!("C11 walk-panic {}", panic_sig(&pm)), "{} {}", pm, ctxs()),
            Ok(r) => r?,
        }
        let b = pp.packet.clone().unwrap_or_default();
        let d = match refdec::decode(&b, opts) {
            Ok(d) => d,
            Err(r) => fail!(format!("C11 bytes-not-well-formed {}", r.clause), "{:?} {}", r, ctxs()),
        };
        let mut want = c.msg.clone();
        if del {
            want.qd.clear();
            ensure!(pp.offset_question.is_none(), "C11 emptied-section-not-absent", "offset_question={:?} {}", pp.offset_question, ctxs());
            ensure!(catch(|| pp.into_iter_question().is_none()).unwrap_or(false), "C11 emptied-section-not-absent", "into_iter_question is Some; {}", ctxs());
            st.class("emptied-section");
        }
        ensure!(d.msg == want, "C11 final-message-wrong", "{}; {}", want.diff(&d.msg, false), ctxs());
        // the emptied (or untouched) question also reads as such through the getters
        let r = catch(|| check_summary(&mut pp, &d, 4, "C11", false));
        match r {
            Err(pm) => fail!(format!("C11 view-panic {}", panic_sig(&pm)), "{} {}", pm, ctxs()),
            Ok(r) => r.map_err(|f| Failure::new(f.sig, format!("{}; {}", f.detail, ctxs())))?,
        }
        return Ok(());
    }
    let n = c.msg.section(sec).iter().filter(|r| !r.is_opt()).count();
    let limit = (n + 1) * (n + 3) + 4;
    let mut deleted: Vec<u32> = vec![];
    let mut seen: Vec<u32> = vec![];
    let mut model = c.msg.clone();
    if c.question_deleted_first {
        let r = catch(|| -> Result<(), String> {
            let mut q = pp.into_iter_question().ok_or("no question")?;
            q.delete().map_err(|e| e.to_string())
        });
        match r {
            Err(pm) => fail!(format!("C11 delete-question-panic {}", panic_sig(&pm)), "{} {}", pm, ctxs()),
            Ok(Err(e)) => fail!("C11 delete-fails", "deleting the question first: {} {}", e, ctxs()),
            Ok(Ok(())) => {}
        }
        model.qd.clear();
        st.class("question-deleted-before-the-walk");
    }
    let incl = c.incl_opt;
    let r = catch(|| -> PResult {
        let mut it = match (sec, incl) {
            (1, _) => pp.into_iter_answer(),
            (2, _) => pp.into_iter_nameservers(),
            (3, false) => pp.into_iter_additional(),
            _ => pp.into_iter_additional_including_opt(),
        };
        let mut yields = 0usize;
        while let Some(mut item) = it {
            yields += 1;
            ensure!(yields <= limit, "C11 walk-does-not-terminate", "more than {} yields; {}", limit, ctxs());
            let is_opt = item.rr_type() == T_OPT;
            ensure!(!is_opt || incl, "C11 opt-yielded-by-skipping-walk", "{}", ctxs());
            let ttl = item.rr_ttl();
            ensure!(!deleted.contains(&ttl), "C11 deleted-record-yielded-again", "ttl {} ; {}", ttl, ctxs());
            if !seen.contains(&ttl) {
                seen.push(ttl);
            }
            let want_delete = if is_opt { c.delete_opt } else { c.delete.contains(&ttl) };
            if want_delete {
                let before_b = item.packet().to_vec();
                let before = refdec::decode(&before_b, opts).map_err(|r| Failure::new(format!("C11 bytes-not-well-formed {}", r.clause), ctxs()))?;
                if let Err(e) = item.delete() {
                    fail!("C11 delete-fails", "{:?} {}", e.to_string(), ctxs());
                }
                ensure!(item.is_tombstone(), "C11 cursor-not-tombstone-after-delete", "{}", ctxs());
                let after_b = item.parsed_packet().packet.clone().unwrap_or_default();
                let after = match refdec::decode(&after_b, opts) {
                    Ok(d) => d,
                    Err(r) => fail!(format!("C11 bytes-not-well-formed {}", r.clause), "after deleting ttl {}: {:?}; bytes={} {}", ttl, r, hex_abbrev(&after_b), ctxs()),
                };
                // exactly that record removed
                let mut want = before.msg.clone();
                let pos = want.section(sec).iter().position(|r| r.ttl == ttl && r.is_opt() == is_opt);
                match pos {
                    Some(p) => {
                        want.section_mut(sec).remove(p);
                    }
                    None => fail!("HARNESS: C11 record to delete not found in decoded packet", "{}", ctxs()),
                }
                ensure!(after.msg == want, "C11 delete-removed-wrong-record", "after deleting ttl {}: {}; {}", ttl, want.diff(&after.msg, false), ctxs());
                let p = model.section(sec).iter().position(|r| r.ttl == ttl && r.is_opt() == is_opt).unwrap();
                model.section_mut(sec).remove(p);
                deleted.push(ttl);
                // second delete through the same cursor
                match item.delete() {
                    Err(e) => {
                        let e = estr(e);
                        ensure!(e.starts_with("VoidRecord|"), "C11 second-delete-error-kind", "{:?}; {}", e, ctxs())
                    }
                    Ok(()) => fail!("C11 second-delete-succeeds", "{}", ctxs()),
                }
                let again = item.parsed_packet().packet.clone().unwrap_or_default();
                ensure!(again == after_b, "C11 second-delete-changed-packet", "{}", ctxs());
            }
            it = if incl { item.next_including_opt() } else { item.next() };
        }
        Ok(())
    });
    match r {
        Err(pm) => fail!(format!("C11 walk-panic {}", panic_sig(&pm)), "{} {}", pm, ctxs()),
        Ok(r) => r?,
    }
    // every survivor was yielded at least once
    for r in model.section(sec) {
        if r.is_opt() && !incl {
            continue;
        }
        ensure!(seen.contains(&r.ttl), "C11 survivor-never-yielded", "ttl {} never yielded; {}", r.ttl, ctxs());
    }
    let b = pp.packet.clone().unwrap_or_default();
    let d = match refdec::decode(&b, opts) {
        Ok(d) => d,
        Err(r) => fail!(format!("C11 bytes-not-well-formed {}", r.clause), "{:?} {}", r, ctxs()),
    };
    ensure!(d.msg == model, "C11 final-message-wrong", "{}; {}", model.diff(&d.msg, false), ctxs());
    if model.section(sec).is_empty() {
        let off = match sec {
            1 => pp.offset_answers,
            2 => pp.offset_nameservers,
            _ => pp.offset_additional,
        };
        ensure!(off.is_none(), "C11 emptied-section-not-absent", "section offset {:?}; {}", off, ctxs());
        let none = catch(|| match sec {
            1 => pp.into_iter_answer().is_none(),
            2 => pp.into_iter_nameservers().is_none(),
            _ => pp.into_iter_additional_including_opt().is_none(),
        });
        ensure!(none == Ok(true), "C11 emptied-section-not-absent", "iterator over the emptied section is not None ({:?}); {}", none, ctxs());
        st.class("emptied-section");
    }
    // C08 view at the end
    let r = catch(|| -> PResult {
        check_summary(&mut pp, &d, 1, "C11", false)?;
        check_walks(&mut pp, &d, &b, 2, "C11")
    });
    match r {
        Err(pm) => fail!(format!("C11 view-panic {}", panic_sig(&pm)), "{} {}", pm, ctxs()),
        Ok(r) => r.map_err(|f| Failure::new(f.sig, format!("{}; {}", f.detail, ctxs())))?,
    }
    Ok(())
}

fn classify_del(c: &DelCase, n: usize, st: &mut Stats) {
    st.class(&format!("section:{}", c.sec));
    let k = c.delete.len();
    st.class(if k == 0 {
        "delete:none"
    } else if k == n {
        "delete:all"
    } else {
        "delete:some"
    });
    if c.delete.windows(2).any(|w| w[1] == w[0] + 1) {
        st.class("delete:adjacent");
    }
    if c.delete.first() == Some(&1000) {
        st.class("delete:first");
    }
    if n > 0 && c.delete.last() == Some(&(1000 + n as u32 - 1)) {
        st.class("delete:last");
    }
    if c.delete_opt {
        st.class("delete:opt");
    }
}

fn c11_case(data: &[u8], st: &mut Stats) -> PResult {
    let mut src = Src::new(data);
    let sec = src.below(4);
    let n = if sec == 0 { 1 } else { src.range(0, 12) };
    let mask = match src.below(6) {
        0 => 0,
        1 => u32::MAX,
        2 => 1,
        3 => 1 << n.saturating_sub(1),
        4 => 3 << src.below(n.max(2) - 1),
        _ => src.u16() as u32,
    };
    let opt_pos = src.below(4);
    let delete_opt = src.chance(100);
    let incl_opt = sec == 3 && src.chance(128);
    let compressed = src.chance(160);
    let seed = src.bytes(64);
    let filler = if sec != 0 && src.chance(40) { src.range(15_900, 16_420) } else { 0 };
    // neighbour sections of 0..2 records (an empty section between two non-empty ones is a special case of the bookkeeping)
    let others = if src.chance(128) { [src.below(3), src.below(3), src.below(3)] } else { [2, 2, 2] };
    let others = if sec == 0 && others[0] == 0 { [1, others[1], others[2]] } else { others };
    let shape = src.weighted(&[20, 6, 4, 4, 1]);
    st.class(&format!("name-shape:{}", shape));
    let mut c = build_del_case_shaped(sec, n, mask, opt_pos, delete_opt, incl_opt, compressed, &seed, filler, others, shape);
    c.prehistory = filler == 0 && src.chance(if sec == 0 { 128 } else { 50 });
    c.question_deleted_first = sec != 0 && !c.prehistory && src.chance(40);
    if others.iter().any(|&x| x == 0) {
        st.class("empty-neighbour-section");
    }
    if filler > 0 {
        st.class("around-offset-16384");
    }
    classify_del(&c, n, st);
    st.class(if compressed { "layout:compressed" } else { "layout:literal" });
    st.class(&format!("opt-pos:{}", opt_pos));
    c11_oracle(&c, st)?;
    if n >= 2 && !c.delete.is_empty() {
        st.nontrivial(&c.desc);
        let cls = format!("section:{}", sec);
        if st.wants_sample(&cls) {
            st.sample(&cls, json!({"case": c.desc, "packet": hex_abbrev(&c.bytes)}));
        }
    }
    Ok(())
}

pub fn replay_c11(data: &[u8]) -> PResult {
    c11_case(data, &mut Stats::default())
}

pub fn check_c11(ctx: &Ctx, known: &KnownFindings) -> Report {
    let mut rep = Report::new("C11");
    let ks = known_sigs(known, "C11");
    rep.rule = "walks over the question, answer, authority and additional sections (n = 0..12 records identified by unique TTLs; OPT absent/first/middle/last; compressed or literal; next() and next_including_opt()) deleting a chosen subset from within the walk. Name shapes: everyday, smallest legal records (root question and owners, empty data), 255-byte names, labels with bytes >= 0x80, and records with 65525..65535 data bytes (longer than a 16-bit length, in packets beyond 65535 bytes). Exhaustive part: every subset of every section size n <= 5 (quick) / n <= 7 (thorough) x section x OPT position x layout x three neighbour-section shapes (2/2/2, 0/0/1, 1/0/0 records); random part: n up to 12 with forced classes (none, all, first, last, adjacent). Oracle: walk ends within (n+1)(n+3)+4 yields; each delete removes exactly the record under the cursor (decoded before/after), lowers only that count, second delete = VoidRecord and changes nothing; no deleted record yielded again; every survivor yielded; final section = survivors in order; emptied section reads as absent; final C08 view. Non-trivial: n >= 2 and >= 1 deletion.".into();
    rep.assumptions = vec!["records of the walked section carry unique TTLs assigned at generation time (identification without touching the packet)".into()];
    // exhaustive subsets
    let nmax = match ctx.tier {
        Tier::Quick => 5,
        Tier::Thorough => 7,
    };
    let mut enumerated = 0u64;
    let seed = vec![0xf0u8; 64];
    'outer: for sec in 1..=3usize {
        for n in 0..=nmax {
            for mask in 0..(1u32 << n) {
                for opt_pos in 0..4 {
                    for compressed in [false, true] {
                        for incl_opt in [false, true] {
                            if incl_opt && sec != 3 {
                                continue;
                            }
                            for delete_opt in [false, true] {
                                if delete_opt && !(incl_opt && opt_pos > 0) {
                                    continue;
                                }
                              for others in [[2usize, 2, 2], [0, 0, 1], [1, 0, 0]] {
                                let c = build_del_case_full(sec, n, mask, opt_pos, delete_opt, incl_opt, compressed, &seed, 0, others);
                                enumerated += 1;
                                let mut st = Stats::default();
                                let r = catch(|| c11_oracle(&c, &mut st));
                                if !matches!(r, Ok(Ok(()))) {
                                    rep.direct(&c.desc, r, &ks);
                                    if rep.founds.len() >= 4 {
                                        break 'outer;
                                    }
                                } else {
                                    rep.stats.evals += 1;
                                    if n >= 2 && mask != 0 {
                                        rep.stats.nontrivial(&c.desc);
                                    }
                                }
                              }
                            }
                        }
                    }
                }
            }
        }
    }
    // the question
    for del in [0u32, 1] {
        for compressed in [false, true] {
            for shape in 0..4 {
                for others in [[2usize, 2, 2], [0, 0, 0], [0, 0, 1]] {
                    let c = build_del_case_shaped(0, 1, del, 1, false, false, compressed, &seed, 0, others, shape);
                    let mut st = Stats::default();
                    let r = catch(|| c11_oracle(&c, &mut st));
                    rep.direct(&c.desc, r, &ks);
                    enumerated += 1;
                }
            }
        }
    }
    // smallest and largest records: every subset for n <= 4
    'shapes: for shape in 1..5usize {
        for sec in 1..=3usize {
            for n in 0..=(if shape == 4 { 3usize } else { 4 }) {
                for mask in 0..(1u32 << n) {
                    for opt_pos in [0usize, 2] {
                        for compressed in [false, true] {
                            let c = build_del_case_shaped(sec, n, mask, opt_pos, false, false, compressed, &seed, 0, [1, 1, 1], shape);
                            enumerated += 1;
                            let mut st = Stats::default();
                            let r = catch(|| c11_oracle(&c, &mut st));
                            if !matches!(r, Ok(Ok(()))) {
                                rep.direct(&c.desc, r, &ks);
                                if rep.founds.len() >= 4 {
                                    break 'shapes;
                                }
                            } else {
                                rep.stats.evals += 1;
                                if n >= 2 && mask != 0 {
                                    rep.stats.nontrivial(&c.desc);
                                }
                            }
                        }
                    }
                }
            }
        }
    }
    rep.stats.class_n("exhaustive-subsets", enumerated);
    rep.extra.insert("exhaustive_subspace".into(), json!(format!("all deletion subsets for n <= {} x 3 sections x 4 OPT positions x 2 layouts x walk kinds = {} walks", nmax, enumerated)));
    let prop = (300usize, c11_case);
    let r = drive(&prop, ctx.cases(300_000, 4_000_000), ctx, 11, &ks);
    rep.absorb(r);
    rep.require(&[
        "section:0", "section:1", "section:2", "section:3", "delete:none", "delete:all", "delete:some", "delete:adjacent", "delete:first", "delete:last", "delete:opt", "emptied-section",
        "layout:compressed", "layout:literal", "exhaustive-subsets", "around-offset-16384", "prehistory:decompress-then-rename", "prehistory:question-cache-warm", "question-deleted-before-the-walk", "empty-neighbour-section", "name-shape:1", "name-shape:2", "name-shape:3", "name-shape:4",
    ]);
    rep
}

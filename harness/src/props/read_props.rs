//! C03 (faithful read-back through the iterators) and C04 (summaries).

use crate::gens::{self, GenOpts};
use crate::model::*;
use crate::props::known_sigs;
use crate::props::parse_props::{gen_input, lib_parse, Origin};
use crate::refdec::{self, Decoded};
use crate::runner::*;
use crate::src::Src;
use crate::view::*;
use serde_json::json;

/// An accepted packet for the read-side properties: generated valid (mostly)
/// or an accepted survivor of the damage operators.
pub fn gen_accepted(src: &mut Src, o: &GenOpts) -> Option<(Vec<u8>, Decoded, String)> {
    let (bytes, tag) = if src.weighted(&[5, 1]) == 0 {
        let (_m, e) = gens::gen_packet(src, o);
        (e.bytes, "valid".to_string())
    } else {
        let (b, origin) = gen_input(src);
        match origin {
            Origin::Damaged(_) => (b, "survivor".to_string()),
            _ => (b, "other".to_string()),
        }
    };
    let d = refdec::decode_strict(&bytes)?;
    Some((bytes, d, tag))
}

pub fn check_walks(pp: &mut dnssector::ParsedPacket, d: &Decoded, bytes: &[u8], order: usize, pfx: &str) -> PResult {
    // six walks in a drawn order
    let orders: [[usize; 6]; 4] = [[0, 1, 2, 3, 4, 5], [5, 4, 3, 2, 1, 0], [3, 4, 0, 5, 1, 2], [4, 3, 5, 0, 2, 1]];
    for &w in orders[order % 4].iter() {
        let (what, got, want) = match w {
            0 => ("question", walk_question(pp), expect_question(d)),
            1 => ("answer", walk_section(pp, 1, false), expect_section(d, bytes, 1, false)),
            2 => ("authority", walk_section(pp, 2, false), expect_section(d, bytes, 2, false)),
            3 => ("additional-skipping-opt", walk_section(pp, 3, false), expect_section(d, bytes, 3, false)),
            4 => ("additional-including-opt", walk_section(pp, 3, true), expect_section(d, bytes, 3, true)),
            _ => {
                let got = walk_edns(pp);
                let want = expect_edns(d, bytes);
                ensure!(got == want, format!("{} edns-walk-differs", pfx), "edns walk: library {:?} vs reference {:?}; packet={}", got, want, hex_abbrev(bytes));
                continue;
            }
        };
        ensure!(
            got == want,
            format!("{} {}-walk-differs [{}]", pfx, what, diff_fields(&got, &want)),
            "{} walk: {}; packet={} decoded={}",
            what,
            first_diff(&got, &want),
            hex_abbrev(bytes),
            d.msg.show()
        );
    }
    Ok(())
}

/// Packets the parser accepts although the reference does not (or finds unspecified): values
/// cannot be compared, but "no accessor panics ... or alters a single byte" still applies.
fn c03_robustness_only(src: &mut Src, st: &mut Stats) -> PResult {
    let (bytes, origin) = gen_input(src);
    if refdec::decode_strict(&bytes).is_some() {
        return Ok(());
    }
    let mut pp = match lib_parse(&bytes) {
        Ok(Ok(p)) => p,
        _ => return Ok(()),
    };
    st.class("parser-accepts-reference-does-not");
    let r = catch(|| {
        let _ = walk_question(&mut pp);
        for s in 1..=3 {
            let _ = walk_section(&mut pp, s, false);
        }
        let _ = walk_section(&mut pp, 3, true);
        let _ = walk_edns(&mut pp);
    });
    if let Err(pm) = r {
        fail!(format!("C03 walk-panic-on-accepted-packet {}", panic_sig(&pm)), "the parser accepts this packet (the reference does not: C02's subject) and an accessor panics: {}; origin={} packet={}", pm, origin.tag(), hex_abbrev(&bytes));
    }
    ensure!(pp.packet.as_deref() == Some(&bytes[..]), "C03 walk-altered-packet", "packet changed by read-only walks: {}", hex_abbrev(&bytes));
    Ok(())
}

fn c03_case(data: &[u8], st: &mut Stats) -> PResult {
    let mut src = Src::new(data);
    if src.chance(24) {
        return c03_robustness_only(&mut src, st);
    }
    let (bytes, d, tag) = match gen_accepted(&mut src, &GenOpts::default()) {
        Some(x) => x,
        None => {
            st.class("skipped:not-accepted-by-reference");
            return Ok(());
        }
    };
    let order = src.below(4);
    let mut pp = match lib_parse(&bytes) {
        Ok(Ok(p)) => p,
        _ => {
            // C02's business
            st.class("skipped:parser-rejects");
            return Ok(());
        }
    };
    st.class(&format!("origin:{}", tag));
    // a caller may have used the question getters before iterating (they fill a cache)
    let warm = src.below(4);
    if warm > 0 {
        let pp2 = &mut pp;
        let r = catch(|| match warm {
            1 => {
                let _ = pp2.question_raw0().map(|q| q.0.len());
            }
            2 => {
                let _ = pp2.question();
                let _ = pp2.question_raw().map(|q| q.0.len());
            }
            _ => {
                let _ = pp2.qtype_qclass();
                let _ = pp2.question_raw0().map(|q| q.0.len());
                let _ = pp2.question();
            }
        });
        if let Err(pm) = r {
            fail!(format!("C03 getter-panic {}", panic_sig(&pm)), "{} packet={}", pm, hex_abbrev(&bytes));
        }
        st.class("question-cache-warm-before-walks");
    }
    let r = catch(|| check_walks(&mut pp, &d, &bytes, order, "C03"));
    match r {
        Err(pm) => fail!(format!("C03 walk-panic {}", panic_sig(&pm)), "panic={} packet={} decoded={}", pm, hex_abbrev(&bytes), d.msg.show()),
        Ok(r) => r?,
    }
    ensure!(pp.packet.as_deref() == Some(&bytes[..]), "C03 walk-altered-packet", "packet changed by read-only walks: {}", hex_abbrev(&bytes));
    let pos = gens::opt_pos(&d.msg);
    st.class(&format!("opt:{:?}", pos));
    let depth = d.max_ptr_depth();
    st.class(&format!("ptr-depth:{}", if depth >= 8 { "8+".to_string() } else { depth.to_string() }));
    if d.all_name_infos().iter().any(|n| n.ptrs.iter().any(|p| p.1 < 12)) {
        st.class("pointer-into-header");
    }
    if bytes.len() > 16383 {
        st.class("len>16383");
    }
    let nrec = d.msg.an.len() + d.msg.ns.len() + d.msg.ar.len();
    if nrec >= 30 {
        st.class("records>=30");
    }
    if nrec >= 1 && (d.has_pointer() || d.edns.is_some()) {
        st.nontrivial(&bytes);
        let cls = format!("opt:{:?}", pos);
        if st.wants_sample(&cls) {
            st.sample(&cls, json!({"len": bytes.len(), "packet": hex_abbrev(&bytes), "decoded": d.msg.show().chars().take(400).collect::<String>(), "max_pointer_depth": depth}));
        }
    }
    Ok(())
}

pub fn replay_c03(data: &[u8]) -> PResult {
    c03_case(data, &mut Stats::default())
}

/// Direct (non-generated) case: a message encoded literally or with a fixed layout.
fn direct_packet(m: &Message) -> Vec<u8> {
    crate::enc::encode(m, crate::enc::Layout::Literal).bytes
}

fn a_rec(owner: &str, ttl: u32) -> Record {
    Record { owner: Name::from_dotted(owner), rtype: T_A, class: 1, ttl, rdata: Rdata::A([1, 2, 3, 4]) }
}

pub fn opt_rec() -> Record {
    Record { owner: Name::root(), rtype: T_OPT, class: 4096, ttl: 0x0000_8000, rdata: Rdata::Opt(vec![(8, vec![0, 1, 24, 0, 1, 2, 3]), (12, vec![])]) }
}

pub fn c03_regressions() -> Vec<(&'static str, Vec<u8>)> {
    let q = Question { name: Name::from_dotted("example.com"), qtype: 1, qclass: 1 };
    let mut v = vec![];
    // D1: OPT first, then an A record: the OPT-skipping walk used to run off the end
    let m = Message { id: 1, flags: 0x0100, qd: vec![q.clone()], ar: vec![opt_rec(), a_rec("a.example.com", 1)], ..Default::default() };
    v.push(("opt-first-then-a", direct_packet(&m)));
    let m = Message { id: 1, flags: 0x8180, qd: vec![q.clone()], an: vec![a_rec("example.com", 5)], ar: vec![a_rec("x.example.com", 1), opt_rec(), a_rec("y.example.com", 2)], ..Default::default() };
    v.push(("opt-middle", direct_packet(&m)));
    let m = Message { id: 1, flags: 0x8180, qd: vec![q.clone()], ar: vec![a_rec("x.example.com", 1), opt_rec()], ..Default::default() };
    v.push(("opt-last", direct_packet(&m)));
    let m = Message { id: 1, flags: 0x0100, qd: vec![q], ar: vec![opt_rec()], ..Default::default() };
    v.push(("opt-only", direct_packet(&m)));
    for g in gens::golden_packets() {
        v.push(("golden", g));
    }
    v
}

pub fn check_c03(ctx: &Ctx, known: &KnownFindings) -> Report {
    let mut rep = Report::new("C03");
    let ks = known_sigs(known, "C03");
    rep.rule = "accepted packets: generated valid (random pointer layouts incl. chains, pointers into rdata names / SRV data / the header, OPT absent/only/first/middle/last, root and 255-byte names, 0..300 records per section, packets beyond 16383/65535 bytes) and accepted survivors of the damage operators. Oracle: for the question, answer, authority, additional-skipping-OPT, additional-including-OPT and EDNS walks the sequence of (name, raw name, type, class, ttl, rdlen, rr_rd, rr_ip, current_section, offset, offset_next) equals the reference decoding; no panic; bytes unchanged. Non-trivial: >=1 record outside the question and (a pointer is followed or an OPT is present); distinct = hash of packet.".into();
    rep.assumptions = vec!["domain = packets accepted by both the parser and the reference recogniser (disagreements are C02's business)".into()];
    for (name, b) in c03_regressions() {
        let r = catch(|| -> PResult {
            let d = match refdec::decode_strict(&b) {
                Some(d) => d,
                None => fail!("HARNESS: regression packet not accepted by reference", "{}", name),
            };
            let mut pp = match lib_parse(&b) {
                Ok(Ok(p)) => p,
                _ => return Ok(()),
            };
            for order in 0..4 {
                check_walks(&mut pp, &d, &b, order, "C03")?;
            }
            ensure!(pp.packet.as_deref() == Some(&b[..]), "C03 walk-altered-packet", "{}", name);
            Ok(())
        });
        rep.direct(name, r, &ks);
    }
    let prop = (1500usize, c03_case);
    let r = drive(&prop, ctx.cases(600_000, 8_000_000), ctx, 3, &ks);
    rep.absorb(r);
    rep.require(&["opt:Absent", "opt:Only", "opt:First", "opt:Middle", "opt:Last", "ptr-depth:0", "ptr-depth:1", "ptr-depth:2", "ptr-depth:3", "origin:valid", "origin:survivor", "records>=30", "len>16383", "question-cache-warm-before-walks"]);
    rep
}

// ---------------------------------------------------------------------------
// C04
// ---------------------------------------------------------------------------

pub fn check_summary(pp: &mut dnssector::ParsedPacket, d: &Decoded, order: u8, pfx: &str, with_payload: bool) -> PResult {
    let want = expect_summary(d);
    for k in 0..2u8 {
        let got = observe_summary(pp, order.wrapping_add(k * 5));
        if got != want {
            fail!(format!("{} summary-differs [{}]", pfx, summary_diff_names(&got, &want)), "pass {}: {}; decoded={}", k, summary_diff(&got, &want).join("; "), d.msg.show());
        }
    }
    if with_payload {
        let want_payload = d.edns.as_ref().map(|e| e.udp as usize).unwrap_or(512);
        ensure!(pp.max_payload() == want_payload, format!("{} summary-differs [max_payload]", pfx), "max_payload {} vs {}", pp.max_payload(), want_payload);
    }
    Ok(())
}

fn c04_case(data: &[u8], st: &mut Stats) -> PResult {
    let mut src = Src::new(data);
    let o = GenOpts { big: false, many: false, ..GenOpts::default() };
    let (mut bytes, _d0, tag) = match gen_accepted(&mut src, &o) {
        Some(x) => x,
        None => {
            st.class("skipped:not-accepted-by-reference");
            return Ok(());
        }
    };
    // rewrite the flag word
    if src.chance(160) && bytes.len() >= 12 {
        let an_ns = bytes[6] | bytes[7] | bytes[8] | bytes[9];
        let mut w = src.u16();
        if an_ns != 0 {
            w |= 0x8000;
        }
        bytes[2] = (w >> 8) as u8;
        bytes[3] = w as u8;
    }
    let d = match refdec::decode_strict(&bytes) {
        Some(d) => d,
        None => {
            st.class("skipped:flag-rewrite-broke-header-name");
            return Ok(());
        }
    };
    let order = src.u8();
    let mut pp = match lib_parse(&bytes) {
        Ok(Ok(p)) => p,
        _ => {
            st.class("skipped:parser-rejects");
            return Ok(());
        }
    };
    st.class(&format!("origin:{}", tag));
    match catch(|| check_summary(&mut pp, &d, order, "C04", true)) {
        Err(pm) => fail!(format!("C04 getter-panic {}", panic_sig(&pm)), "panic={} packet={}", pm, hex_abbrev(&bytes)),
        Ok(r) => {
            if let Err(mut f) = r {
                f.detail = format!("{}; packet={}", f.detail, hex_abbrev(&bytes));
                return Err(f);
            }
        }
    }
    if d.edns.is_some() {
        st.class("with-opt");
    } else {
        st.class("without-opt");
    }
    if d.q.as_ref().map(|q| q.name.ptrs.iter().any(|p| p.1 < 12)).unwrap_or(false) {
        st.class("question-via-header-pointer");
    }
    if d.q.as_ref().map(|q| !q.name.ptrs.is_empty()).unwrap_or(false) {
        st.class("question-via-pointer");
    }
    let w = d.msg.flags;
    if d.edns.is_some() || w & 0x7800 != 0 || w & 0x000f != 0 || w & 0x0040 != 0 {
        st.nontrivial(&bytes);
        let cls = if d.edns.is_some() { "with-opt" } else { "without-opt" };
        if st.wants_sample(cls) {
            st.sample(cls, json!({"packet": hex_abbrev(&bytes), "flags": format!("{:04x}", w), "summary": format!("{:?}", expect_summary(&d))}));
        }
    }
    Ok(())
}

pub fn replay_c04(data: &[u8]) -> PResult {
    c04_case(data, &mut Stats::default())
}

/// Fixed shapes for the exhaustive flag-word sweep (no AN/NS so that every word is legal).
pub fn sweep_shapes() -> Vec<(&'static str, Vec<u8>)> {
    let q = Question { name: Name::from_dotted("Www.Example.COM"), qtype: 28, qclass: 1 };
    let mut v = vec![];
    let m = Message { id: 0xbeef, flags: 0, qd: vec![q.clone()], ..Default::default() };
    v.push(("no-opt", direct_packet(&m)));
    let mut opt = opt_rec();
    opt.ttl = 0xa5_03_80_01; // ext rcode a5, version 3, DO set, one more flag bit
    opt.class = 1232;
    let m = Message { id: 0x1234, flags: 0, qd: vec![q.clone()], ar: vec![opt.clone()], ..Default::default() };
    v.push(("opt-do", direct_packet(&m)));
    opt.ttl = 0x00_00_7f_ff; // DO clear, all other ext flags set
    let m = Message { id: 0x1234, flags: 0, qd: vec![q], ar: vec![a_rec("b.example.com", 9), opt, a_rec("c.example.com", 9)], ..Default::default() };
    v.push(("opt-middle-no-do", direct_packet(&m)));
    v
}

pub fn check_c04(ctx: &Ctx, known: &KnownFindings) -> Report {
    let mut rep = Report::new("C04");
    let ks = known_sigs(known, "C04");
    rep.rule = "accepted packets (as C03, small) with the flag word rewritten at random, plus an exhaustive sweep of all 65536 flag words over fixed shapes (no OPT / OPT with DO / OPT in the middle without DO); getters called twice in 6 permuted orders (question cache). Oracle: tid, opcode, rcode, is_response, flags(), dnssec(), question (3 forms), qtype_qclass, edns_version, ext_rcode, ext_flags, edns_count, offset_edns, section offsets, max_payload equal the values decoded from the bytes by the reference. Non-trivial: OPT present or opcode/rcode/Z non-zero; distinct = hash of packet.".into();
    rep.assumptions = vec!["domain = packets accepted by both the parser and the reference recogniser".into()];
    // exhaustive sweep
    let shapes = sweep_shapes();
    let mut swept = 0u64;
    'outer: for (name, base) in &shapes {
        for w in 0..=0xffffu32 {
            let mut b = base.clone();
            b[2] = (w >> 8) as u8;
            b[3] = w as u8;
            swept += 1;
            let r = catch(|| -> PResult {
                let d = match refdec::decode_strict(&b) {
                    Some(d) => d,
                    None => fail!("HARNESS: sweep shape not accepted by reference", "{} {:04x}", name, w),
                };
                let mut pp = match lib_parse(&b) {
                    Ok(Ok(p)) => p,
                    Ok(Err(e)) => fail!("C04 sweep-shape-rejected", "shape {} word {:04x}: {}", name, w, e),
                    Err(pm) => fail!(format!("C04 parse-panic {}", panic_sig(&pm)), "shape {} word {:04x}", name, w),
                };
                let r = check_summary(&mut pp, &d, (w % 6) as u8, "C04", true);
                r.map_err(|f| Failure::new(f.sig, format!("shape {} word {:04x}: {}", name, w, f.detail)))
            });
            let failed = !matches!(r, Ok(Ok(())));
            if failed || w == 0 {
                rep.direct(&format!("sweep:{}:{:04x}", name, w), r, &ks);
                if failed && rep.founds.len() >= 3 {
                    break 'outer;
                }
            } else {
                rep.stats.evals += 1;
            }
            if w & 0x780f != 0 {
                rep.stats.nontrivial(&b);
            }
        }
    }
    rep.stats.class_n("sweep:flag-words", swept);
    rep.extra.insert("exhaustive_subspace".into(), json!(format!("all 65536 flag words x {} fixed shapes = {} packets", shapes.len(), swept)));
    let prop = (900usize, c04_case);
    let r = drive(&prop, ctx.cases(500_000, 6_000_000), ctx, 4, &ks);
    rep.absorb(r);
    rep.require(&["with-opt", "without-opt", "question-via-pointer", "question-via-header-pointer", "sweep:flag-words"]);
    rep
}

#!/bin/bash
# Builds the verification framework from files on disk only (offline).
set -e
cd "$(dirname "$0")/harness"
export CARGO_NET_OFFLINE=true
cargo build --offline
cargo build --offline --release

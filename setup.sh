#!/bin/bash
# Builds the verification framework from files on disk only (offline).
set -e
V="$(cd "$(dirname "$0")" && pwd)"
cd "$V/harness"
export CARGO_NET_OFFLINE=true
cargo build --offline
cargo build --offline --release
# fuzz targets (thorough tier); a failure here only disables the fuzz part of the thorough tier
(cargo +nightly fuzz build --fuzz-dir ../fuzz >/dev/null 2>&1 || echo "note: fuzz targets not built") 
mkdir -p "$V/work" && ./target/debug/dnsverif dump-corpus "$V/work/corpus" >/dev/null 2>&1 || true

#!/usr/bin/env python3
"""Validate MANIFEST.json and evidence files against the schemas (uses the tooling venv's jsonschema)."""
import json, sys, glob, jsonschema
ok = True
try:
    jsonschema.validate(json.load(open('/verif/MANIFEST.json')), json.load(open('/root/.vp/MANIFEST.schema.json')))
    print("MANIFEST ok")
except Exception as e:
    ok = False; print("MANIFEST INVALID", e)
sch = json.load(open('/root/.vp/EVIDENCE.schema.json'))
for f in sorted(glob.glob('/verif/evidence/C??.json')):
    try:
        jsonschema.validate(json.load(open(f)), sch); print(f, "ok")
    except Exception as e:
        ok = False; print(f, "INVALID", str(e)[:300])
sys.exit(0 if ok else 1)

#!/usr/bin/env python3
"""Regenerates the 'fixed' list of known_findings.json from /repo's git log (hashes change on rebase)."""
import json, subprocess
log = subprocess.run(['git', '-C', '/repo', 'log', '--format=%h %s'], capture_output=True, text=True).stdout.splitlines()
def h(sub):
    for l in log:
        if sub in l:
            return l.split()[0]
    raise SystemExit("no commit for " + sub)
FIXED = [
 ("C03", "skips OPT", "additional-section walk that skips OPT did not count the skipped record: AR=[OPT, A] indexed past the end of the packet (panic) one record later"),
 ("C06", "output offsets, not input", "compress(): suffix dictionary stored input offsets; after any shortening later pointers designated wrong bytes (Q example.com; A foo.example.com; A bar.org; A bar.org => unparsable output)"),
 ("C06", "must not drop the OPT", "compress(): OPT record dropped unless it was the first additional record (arcount still announced it)"),
 ("C06", "pointer chains emitted", "compress(): suffix nesting deeper than 16 produced pointer chains the parser rejects (Too many indirections)"),
 ("C07", "MX rdata length", "renamer: MX rdlen 10 too small: underflow panic / unparsable output for any packet with an MX record"),
 ("C07", "SOA rdata length", "renamer: SOA rdlen 10 too small: output rejected by the parser"),
 ("C07", "keeps the OPT record", "renamer: OPT not last in the additional section => following records duplicated after it, order changed, trailing bytes"),
 ("C07", "without a packet", "ParsedPacket::rename_with_raw_names left packet=None (next access panics) and kept the stale cached question"),
 ("C08", "growing a record copied", "resize_rr grow path copied offset..offset+packet_len: every set_raw_name to a longer name panicked"),
 ("C08", "left offset_edns", "resize_rr did not shift offset_edns: delete / rename of a record before OPT left the EDNS cursor stale"),
 ("C08", "question cursors", "RRIterator::recompute used the record layout for question cursors: set_raw_name/delete/uncompress on the question of a compressed packet panicked"),
 ("C08", "stale offset of the current record", "iterator uncompress() translated offset_next but recomputed from the untranslated offset: cursor read garbage / panicked"),
 ("C08", "cached question", "question cache not invalidated by set_raw_name/delete on the question"),
 ("C08", "clear the EDNS summary", "deleting the OPT record left offset_edns/edns_count/ext_* (and flags()/dnssec()) describing the deleted record"),
 ("C08", "labels the validator rejects", "set_raw_name accepted labels with dot/backslash/control bytes: packet no longer parses"),
 ("C08", "dragged its TTL and data along", "insert_rr(Section::Question) with a full record (insert_rr_from_string / add_to_question) inserted TTL, rdlength and rdata into the question section: packet rejected by the parser"),
 ("C10", "before checking the section count", "insert_rr spliced the record in before the count check: a refused second question left extra bytes (packet no longer parses)"),
 ("C10", "size check underflowed", "insert_rr: 8192 - len underflowed for packets > 8192 bytes: panic (debug) / size limit bypass (release)"),
 ("C10", "no longer destroys the packet", "ParsedPacket::rename_with_raw_names returning an error after the re-parse failed left packet=None (e.g. target name with a forbidden character)"),
 ("C10", "spliced unvalidated names", "rename_with_raw_names did not validate target/source: forbidden characters / trailing bytes gave an unparsable packet, a pointer byte panicked (abort through the C table)"),
 ("C12", "could never clear a flag", "set_flags cleared opcode and rcode and never cleared a flag bit (inverted masks)"),
 ("C13", "odd number of hex digits", "DS digest with an odd number of hex digits: hex::decode(..).unwrap() panic in RR::from_string"),
 ("C13", "62-byte label was rejected", "host name ending in a 62-byte label followed by a blank was a parse error (length guard fired on the terminating blank)"),
 ("C15", "c_hook.h declared the names", "c_hook.h declared rename_with_raw_names' name arguments as const uint8_t instead of const uint8_t *: a hook compiled against the shipped header cannot pass the names (compile error with -Werror)"),
 ("C13", "everything already in the output buffer", "name length check counted bytes already in the output vector: 252-byte MX host / two SOA names totalling > 253 bytes refused"),
]
k = json.load(open('/verif/known_findings.json'))
k['fixed'] = [f"fixed: property={p} {h(sub)} {what}" for p, sub, what in FIXED]
json.dump(k, open('/verif/known_findings.json', 'w'), indent=1)
print(len(k['fixed']), "fixed entries;", len(k['open']), "open")

#!/bin/bash
# tools/matrix.sh [check ids...] : every seeded change against the given quick checks (default: its own property's check).
# Writes work/matrix.log; prints one line per seeded change.  /repo is modified and reverted for each change.
cd "$(dirname "$0")/.."
for d in seeded/*; do
  id=$(basename $d); prop=${id%%-*}
  # MATRIX_ONLY="C06 C12": restrict to the seeded changes of these properties
  if [ -n "$MATRIX_ONLY" ] && ! echo " $MATRIX_ONLY " | grep -q " $prop "; then continue; fi
  checks=${@:-$prop}
  git -C /repo apply "$PWD/$d/patch.diff" 2>/dev/null || { echo "$id: patch does not apply"; continue; }
  caught=""
  for c in $checks; do
    ./check $c quick >work/matrix-$id-$c.out 2>&1; rc=$?
    [ $rc = 1 ] && caught="$caught $c"
    [ $rc = 2 ] && caught="$caught $c(inconclusive)"
  done
  git -C /repo checkout -- .
  echo "$id: caught-by:${caught:- NONE}"
done

#!/bin/bash
# tools/try_mutant.sh <PROP> <patch.diff> <demo.rs> [check ids...]
# 1. confirms the seeded change in a scratch worktree (46 tests pass, demo fails with / passes without)
# 2. applies it to /repo, runs the given checks (default: the property's own quick check), reverts.
PROP=$1; PATCH=$(readlink -f "$2"); DEMO=$(readlink -f "$3"); shift 3
CHECKS=${@:-$PROP}
SCR=/tmp/mut/confirm
name=$(basename "$DEMO" .rs)
if [ -z "$SKIP_CONFIRM" ]; then
  if [ ! -d $SCR ]; then git -C /repo worktree add -q --detach $SCR HEAD || exit 3; fi
  cd $SCR && git checkout -q --detach $(git -C /repo rev-parse HEAD) && git checkout -q -- . && git clean -fdq tests
  git apply "$PATCH" || { echo "RESULT $PROP $(basename $PATCH) patch-does-not-apply"; exit 3; }
  t=$(cargo test --offline 2>&1 | grep -E "^test result" | awk '{p+=$4; f+=$6} END {print p" "f}')
  cp "$DEMO" tests/$name.rs
  cargo test --offline --test $name >/tmp/mut/confirm-with.log 2>&1; with=$?
  git checkout -q -- src Cargo.toml 2>/dev/null; git checkout -q -- .
  cargo test --offline --test $name >/tmp/mut/confirm-without.log 2>&1; without=$?
  rm -f tests/$name.rs
  echo "CONFIRM $PROP $(basename $PATCH): existing tests passed/failed = $t; demo with patch rc=$with (want !=0); without rc=$without (want 0)"
  if [ "$with" = 0 ] || [ "$without" != 0 ]; then echo "RESULT $PROP $(basename $PATCH) NOT-CONFIRMED"; exit 4; fi
fi
cd /verif
git -C /repo apply "$PATCH" || { echo "RESULT $PROP $(basename $PATCH) patch-does-not-apply-to-repo"; exit 3; }
caught=""
for c in $CHECKS; do
  out=$(./check $c quick 2>&1); rc=$?
  sig=$(echo "$out" | grep -E "^--- .* failure:" | head -2 | cut -c1-160 | tr '\n' '|')
  echo "  check $c rc=$rc $sig"
  if [ $rc = 1 ]; then caught="$caught $c"; fi
  if [ $rc = 2 ]; then echo "$out" | tail -5; fi
done
git -C /repo checkout -- . 
echo "RESULT $PROP $(basename $PATCH) caught-by:${caught:- NONE}"

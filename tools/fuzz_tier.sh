#!/bin/bash
# tools/fuzz_tier.sh <ID> : coverage-guided part of the thorough tier for property <ID>.
# Runs the libFuzzer target that carries the property's oracle; every artefact is re-run through
# `dnsverif fuzz-replay` and only reported if that property's oracle fails there.
# exit 0 nothing found (or no target for this property) / 1 violation (VIOLATION line printed).
ID=$1
VERIF_DIR="$(cd "$(dirname "$0")/.." && pwd)"
case "$ID" in
  C01|C02|C03|C04|C05|C18) T=parse ;;
  C06) T=compress ;;
  C07) T=rename ;;
  C08|C09|C10|C11) T=ops ;;
  C13|C14) T=synth ;;
  *) exit 0 ;;
esac
# raw packets up to 4 KiB; choice strings as long as the proptest ones
if [ "$T" = parse ]; then MAXLEN=4096; else MAXLEN=1600; fi
SECS=${VERIF_FUZZ_SECS:-120}
JOBS=${VERIF_FUZZ_JOBS:-16}
SEED=${VERIF_SEED:-1}
[ "$SEED" = 0 ] && SEED=1
W="$VERIF_DIR/work"
CORP="$W/fuzz-corpus/$T"; SEEDS="$W/corpus/$T"; ART="$W/fuzz-artifacts/$ID"
mkdir -p "$CORP" "$ART"; rm -f "$ART"/*
cd "$VERIF_DIR/harness" || exit 0
export CARGO_NET_OFFLINE=true RUST_BACKTRACE=0
if [ ! -d "$SEEDS" ]; then ./target/debug/dnsverif dump-corpus "$W/corpus" >/dev/null 2>&1; fi
LOG="$W/fuzz-$ID.log"
( flock 9; cargo +nightly fuzz build --fuzz-dir ../fuzz $T >"$W/fuzz-build-$ID.log" 2>&1 ) 9>"$W/build.lock"
if [ $? -ne 0 ]; then echo "NOTE property=$ID fuzz target $T did not build (see $W/fuzz-build-$ID.log); fuzz tier skipped"; exit 0; fi
timeout -k 10 $((SECS + 120)) cargo +nightly fuzz run --fuzz-dir ../fuzz $T "$CORP" "$SEEDS" -- \
    -max_total_time=$SECS -seed=$SEED -fork=$JOBS -len_control=0 -max_len=$MAXLEN -artifact_prefix="$ART/" >"$LOG" 2>&1
runs=$(grep -oE "^#[0-9]+: cov" "$LOG" | tail -1 | grep -oE "[0-9]+")
rc=0; crashes=0; other=0
for a in "$ART"/crash-* "$ART"/timeout-* "$ART"/oom-* "$ART"/leak-*; do
  [ -f "$a" ] || continue
  out=$(./target/debug/dnsverif fuzz-replay $T "$a" 2>&1); r=$?
  if [ $r -eq 1 ] && echo "$out" | head -1 | grep -qE "^--- ($ID |harness-panic)"; then
    crashes=$((crashes+1))
    mkdir -p "$VERIF_DIR/replays/$ID"
    rp="$VERIF_DIR/replays/$ID/fuzz-$(basename "$a").case"
    python3 - "$a" "$rp" "$ID" "$T" <<'PY'
import sys, json
data = open(sys.argv[1], 'rb').read()
json.dump({"property": sys.argv[3], "kind": "fuzz:" + sys.argv[4], "data": data.hex(), "note": "libFuzzer artefact " + sys.argv[1]}, open(sys.argv[2], 'w'), indent=1)
PY
    echo "$out" | head -3 | cut -c1-2000
    echo "VIOLATION property=$ID replay=$rp"
    rc=1
  elif [ $r -eq 1 ]; then
    other=$((other+1))
    echo "NOTE property=$ID fuzz target $T found a failure of another property: $(echo "$out" | head -1 | cut -c1-200) (artefact $a)"
  else
    echo "NOTE property=$ID libFuzzer artefact $(basename "$a") does not fail the oracle on replay (resource limit of the fuzzer); ignored"
  fi
done
python3 - "$VERIF_DIR/evidence/$ID.json" "$T" "${runs:-0}" "$SECS" "$JOBS" "$crashes" "$other" "$(ls "$CORP" | wc -l)" <<'PY'
import sys, json
p = sys.argv[1]
try:
    e = json.load(open(p))
except Exception:
    sys.exit(0)
e["coverage"]["fuzz"] = {"engine": "libFuzzer (cargo-fuzz, ASan, debug assertions)", "target": sys.argv[2], "executions": int(sys.argv[3]), "seconds": int(sys.argv[4]),
                         "jobs": int(sys.argv[5]), "violations_of_this_property": int(sys.argv[6]), "failures_of_other_properties": int(sys.argv[7]), "corpus_files": int(sys.argv[8]),
                         "note": "same oracle functions as the proptest check run inside the target; campaigns are only approximately reproducible, the saved input is the reproducible unit"}
if int(sys.argv[6]):
    e["violations"] = e.get("violations", 0) + int(sys.argv[6])
json.dump(e, open(p, 'w'), indent=1)
PY
echo "$ID thorough fuzz: target=$T executions=${runs:-0} seconds=$SECS jobs=$JOBS violations=$crashes"
exit $rc

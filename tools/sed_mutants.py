#!/usr/bin/env python3
"""One-line mutant sweep (sensitivity regression).

Each entry: (name, file, old text, new text, checks expected to be able to see it).
For every mutant: apply to /repo, require that the crate still builds and the 46 tests pass
(otherwise the mutant is skipped: the existing tests already see it), run the listed quick
checks, revert.  Output: one RESULT line per mutant; table written to notes/sed-mutants.md.
Usage: tools/sed_mutants.py [name-substring ...]
"""
import subprocess, sys, os, re

R = '/repo/src/'
M = [
 ("mx-rdlen-min", "dns_sector.rs", "if rr_rdlen <= 2 {", "if rr_rdlen < 2 {", "C02 C01"),
 ("soa-rdlen-min", "dns_sector.rs", "if rr_rdlen <= 1 + 20 {", "if rr_rdlen < 20 {", "C02 C01"),
 ("label-63-rejected", "compress.rs", "len if len > 0x3f => bail!(DSError::InvalidName(\"Label length too long\")),\n                len => len as usize,\n            };\n            if label_len >= packet_len - offset {\n                bail!(DSError::InvalidName(\"Out-of-bounds name\"));\n            }\n            name_len += label_len + 1;\n            if name_len > DNS_MAX_HOSTNAME_LEN {\n                bail!(DSError::InvalidName(\"Name too long\"));\n            }\n            if packet", "len if len >= 0x3f => bail!(DSError::InvalidName(\"Label length too long\")),\n                len => len as usize,\n            };\n            if label_len >= packet_len - offset {\n                bail!(DSError::InvalidName(\"Out-of-bounds name\"));\n            }\n            name_len += label_len + 1;\n            if name_len > DNS_MAX_HOSTNAME_LEN {\n                bail!(DSError::InvalidName(\"Name too long\"));\n            }\n            if packet", "C02"),
 ("indirections-17", "constants.rs", "pub const DNS_MAX_HOSTNAME_INDIRECTIONS: u16 = 16;", "pub const DNS_MAX_HOSTNAME_INDIRECTIONS: u16 = 17;", "C02 C06"),
 ("duplicate-opt-allowed", "dns_sector.rs", "if self.edns_end.is_some() {", "if false && self.edns_end.is_some() {", "C02"),
 ("trailing-bytes-allowed", "dns_sector.rs", "if self.remaining_len() > 0 {", "if false && self.remaining_len() > 0 {", "C02"),
 ("backslash-allowed", "compress.rs", "c.is_ascii_control() || c == b'.' || c == b'\\\\' || c == 0", "c.is_ascii_control() || c == b'.' || c == 0", "C02"),
 ("name-255-rejected", "compress.rs", "            name_len += label_len + 1;\n            if name_len > DNS_MAX_HOSTNAME_LEN {\n                bail!(DSError::InvalidName(\"Name too long\"));\n            }\n            if packet", "            name_len += label_len + 1;\n            if name_len >= DNS_MAX_HOSTNAME_LEN {\n                bail!(DSError::InvalidName(\"Name too long\"));\n            }\n            if packet", "C02"),
 ("pointer-to-segment-start", "compress.rs", "if ref_offset == offset || ref_offset >= lowest_offset {", "if ref_offset == offset || ref_offset > lowest_offset {", "C02 C01 C18"),
 ("qclass-any-accepted", "dns_sector.rs", "        self.ensure_in_class()?;\n        if self.rr_class()? != Class::IN.into() {\n            bail!(DSError::UnsupportedClass(self.rr_class().unwrap_or(0)));\n        }\n", "", "C02"),
 ("aaaa-len-15", "dns_sector.rs", "if rr_rdlen != 16 {", "if rr_rdlen != 16 && rr_rdlen != 15 {", "C02 C03"),
 ("rr-class-reads-type", "rr_iterator.rs", "BigEndian::read_u16(&self.rdata_slice()[DNS_RR_CLASS_OFFSET..])", "BigEndian::read_u16(&self.rdata_slice()[DNS_RR_TYPE_OFFSET..])", "C03 C15"),
 ("ttl-reads-3-bytes", "rr_iterator.rs", "BigEndian::read_u32(&self.rdata_slice()[DNS_RR_TTL_OFFSET..])", "BigEndian::read_u32(&self.rdata_slice()[DNS_RR_TTL_OFFSET..]) & 0xffffff7f", "C03 C15"),
 ("rcode-mask-7", "parsed_packet.rs", "rflags & 0x0f\n", "rflags & 0x07\n", "C04 C12 C15"),
 ("dnssec-swapped", "parsed_packet.rs", "if flags & DNS_FLAG_QR == 0 {\n            (flags & DNS_FLAG_DO) != 0", "if flags & DNS_FLAG_QR != 0 {\n            (flags & DNS_FLAG_DO) != 0", "C04"),
 ("flags-keep-rcode", "parsed_packet.rs", "        rflags &= !0x000f; // mask rcode\n        ((self.ext_flags", "        ((self.ext_flags", "C04 C12 C15"),
 ("opcode-shift", "parsed_packet.rs", "(rflags & 0x78) >> 3", "(rflags & 0x78) >> 2", "C04 C12 C15"),
 ("uncompress-mx-rdlen", "compress.rs", "let new_rdlen = 2 + Compress::copy_uncompressed_name(\n                    uncompressed,", "let new_rdlen = Compress::copy_uncompressed_name(\n                    uncompressed,", "C05"),
 ("uncompress-soa-19", "compress.rs", "uncompressed.extend_from_slice(&packet[u2.final_offset..u2.final_offset + 20]);\n                let new_rdlen = u1.name_len + u2.name_len + 20;\n                BigEndian::write_u16(\n                    &mut uncompressed", "uncompressed.extend_from_slice(&packet[u2.final_offset..u2.final_offset + 20]);\n                let new_rdlen = u1.name_len + u2.name_len + 19;\n                BigEndian::write_u16(\n                    &mut uncompressed", "C05"),
 ("uncompress-end-boundary", "compress.rs", "        if ref_offset == parsed_packet.packet().len() {\n            new_offset = Some(uncompressed.len());\n        }\n", "", "C05 C08"),
 ("compress-pointer-plus-one", "compress.rs", "compressed.push((ref_offset & 0xff) as u8);", "compressed.push(((ref_offset + 1) & 0xff) as u8);", "C06 C07"),
 ("compress-min-suffix", "compress.rs", "if suffix_len <= 2 || suffix_len > MAX_SUFFIX_LEN {", "if suffix_len < 2 || suffix_len > MAX_SUFFIX_LEN {", "C06"),
 ("compress-16384", "compress.rs", "        if offset >= 65536 >> 2 {\n            return None;\n        }", "        if offset > 65536 >> 2 {\n            return None;\n        }", "C06"),
 ("rename-case-sensitive", "renamer.rs", ".all(|j| name[i + j].eq_ignore_ascii_case(&source_name[i + j - offset]))", ".all(|j| name[i + j] == source_name[i + j - offset])", "C07"),
 ("rename-limit-254", "renamer.rs", "if offset + target_name_len > DNS_MAX_HOSTNAME_LEN {", "if offset + target_name_len >= DNS_MAX_HOSTNAME_LEN {", "C07"),
 ("rename-skips-ptr", "renamer.rs", "x if x == Type::NS.into()\n                        || x == Type::CNAME.into()\n                        || x == Type::PTR.into() =>", "x if x == Type::NS.into() || x == Type::CNAME.into() =>", "C07"),
 ("insert-answer-forgets-edns", "parsed_packet.rs", "                self.offset_nameservers = self.offset_nameservers.map(|x| x + rr_len);\n                self.offset_additional = self.offset_additional.map(|x| x + rr_len);\n                self.offset_edns = self.offset_edns.map(|x| x + rr_len);\n            }\n            Section::NameServers", "                self.offset_nameservers = self.offset_nameservers.map(|x| x + rr_len);\n                self.offset_additional = self.offset_additional.map(|x| x + rr_len);\n            }\n            Section::NameServers", "C08 C09"),
 ("insert-ns-before-additional-swapped", "parsed_packet.rs", "            Section::Answer => self\n                .offset_nameservers\n                .or(self.offset_additional)", "            Section::Answer => self\n                .offset_additional\n                .or(self.offset_nameservers)", "C08 C09 C13"),
 ("delete-no-invalidate", "rr_iterator.rs", "        self.set_offset_next(offset);\n        self.invalidate();", "        self.set_offset_next(offset);", "C11 C10 C08"),
 ("delete-keeps-offset-when-empty", "rr_iterator.rs", "if rrcount <= 0 {\n            let offset = match section {", "if rrcount <= 0 && section != Section::NameServers {\n            let offset = match section {", "C11 C08"),
 ("set-rcode-mask", "parsed_packet.rs", "*p &= !0x0f;\n        *p |= rcode & 0x0f;", "*p &= !0x1f;\n        *p |= rcode & 0x0f;", "C12"),
 ("set-opcode-mask", "parsed_packet.rs", "*p |= (opcode << 3) & 0x78;", "*p |= (opcode << 3) & 0x70;", "C12"),
 ("set-response-static", "dns_sector.rs", "            oll &= !(DNS_FLAG_QR as u16)\n        }\n        BigEndian::write_u16(&mut packet[DNS_FLAGS_OFFSET..], oll);", "            oll &= !(DNS_FLAG_QR as u16 | DNS_FLAG_AA as u16)\n        }\n        BigEndian::write_u16(&mut packet[DNS_FLAGS_OFFSET..], oll);", "C12"),
 ("synth-class-type-swapped", "synth/gen.rs", "        BigEndian::write_u16(&mut header[DNS_RR_CLASS_OFFSET..], rr_header.class.into());\n        BigEndian::write_u16(&mut header[DNS_RR_TYPE_OFFSET..], rr_header.rr_type.into());", "        BigEndian::write_u16(&mut header[DNS_RR_TYPE_OFFSET..], rr_header.class.into());\n        BigEndian::write_u16(&mut header[DNS_RR_CLASS_OFFSET..], rr_header.rr_type.into());", "C13"),
 ("txt-chunk-256", "synth/gen.rs", "for chunk in txt.chunks(255) {", "for chunk in txt.chunks(256) {", "C13"),
 ("escape-256", "synth/parser.rs", "0..=255 => i.ret(r as u8),", "0..=256 => i.ret(r as u8),", "C13"),
 ("label-64-accepted", "synth/gen.rs", "_ if label_len >= 63 - 1 => bail!(DSError::InvalidName(\"Label too long\")),", "_ if label_len >= 65 => bail!(DSError::InvalidName(\"Label too long\")),", "C14 C13"),
 ("zone-always-appended", "synth/gen.rs", "    if label_len == 0 {\n        raw_name.push(0);\n    } else {", "    if label_len == 0 && raw_zone.is_none() {\n        raw_name.push(0);\n    } else if label_len == 0 {\n        raw_name.extend_from_slice(raw_zone.unwrap());\n    } else {", "C14 C15"),
 ("cabi-name-no-nul", "c_abi.rs", "        name[..name_len].copy_from_slice(&name_vec);\n        name[name_len] = 0;\n    }\n}\n\nunsafe extern \"C\" fn rr_ttl", "        name[..name_len].copy_from_slice(&name_vec);\n    }\n}\n\nunsafe extern \"C\" fn rr_ttl", "C15"),
 ("cabi-raw-packet-boundary", "c_abi.rs", "if packet_len > raw_packet_max_len {", "if packet_len >= raw_packet_max_len {", "C15"),
 ("cabi-rr-ip-len", "c_abi.rs", "                assert!(*addr_len >= 16);\n                *addr_len = 16;", "                assert!(*addr_len >= 16);", "C15"),
 ("cabi-iter-ns-is-answer", "c_abi.rs", "        let mut it = (*parsed_packet).into_iter_nameservers();\n        while let Some(mut item) = it {\n            let section_iterator = SectionIterator {\n                magic: SECTION_ITERATOR_MAGIC,\n                section: Section::NameServers,", "        let mut it = (*parsed_packet).into_iter_nameservers();\n        while let Some(mut item) = it {\n            let section_iterator = SectionIterator {\n                magic: SECTION_ITERATOR_MAGIC,\n                section: Section::Answer,", "C15"),
 ("cabi-question-type", "c_abi.rs", "            Some((name_str, rr_type_, _)) => {\n                *rr_type = rr_type_;", "            Some((name_str, _, rr_type_)) => {\n                *rr_type = rr_type_;", "C15"),
 ("recompute-keeps-cache", "parsed_packet.rs", "        self.packet = Some(parsed_packet.into_packet());\n        self.cached = None;\n        Ok(())\n    }\n\n    /// Returns the question as a raw vector", "        self.packet = Some(parsed_packet.into_packet());\n        Ok(())\n    }\n\n    /// Returns the question as a raw vector", "C08"),
 ("edns-iter-header-size", "rr_iterator.rs", "offset += DNS_EDNS_RR_HEADER_SIZE + Self::edns_rr_rdlen(packet, offset);", "offset += DNS_EDNS_RR_HEADER_SIZE + Self::edns_rr_rdlen(packet, offset) + (Self::edns_rr_rdlen(packet, offset) & 1);", "C03 C15"),
 ("option-loop-extra-work", "dns_sector.rs", "        while self.edns_remaining_len() > 0 {\n", "        while self.edns_remaining_len() > 0 {\n            for _ in 0..self.edns_remaining_len() / 64 {\n                #[cfg(feature = \"verif_hooks\")]\n                crate::verif_hooks::step();\n            }\n", "C18"),
 ("empty-id-fixed", "parsed_packet.rs", "let tid: u16 = rng.random();", "let tid: u16 = 4;", "C17"),
]

# Mutants that turned out to be equivalent (no input distinguishes them from the original): analysed by hand.
EQUIVALENT = {
 "mx-rdlen-min": "an MX with rdlen 2 is rejected anyway by the exact-fit test (a name needs at least one byte)",
 "soa-rdlen-min": "rdlen 20/21 is rejected anyway by the exact-fit test (two names need at least two bytes)",
 "pointer-to-segment-start": "a pointer back to the start of the current segment is then rejected by the barrier test (Cycle)",
 "compress-min-suffix": "no complete name has a wire length of exactly 2",
 "compress-16384": "an entry stored at offset 16384 can never be looked up: every later lookup happens beyond 16384 and returns early",
 "cabi-iter-ns-is-answer": "the three record-section tags select the same ResponseIterator code in every table entry",
 "recompute-keeps-cache": "decompression does not change the question, so the stale cache still holds the right value",
}

# Behaviour-preserving (or still-correct) variants: every listed check must stay SILENT on them.
BENIGN = [
 ("benign-reworded-void-record", "errors.rs", '#[error("Void record")]', '#[error("This record was deleted")]', "C10 C11 C15 C16"),
 ("benign-reworded-too-large", "errors.rs", '#[error("Packet too large")]', '#[error("The packet would exceed the size limit")]', "C10 C08"),
 ("benign-cycle-error-kind", "compress.rs", 'bail!(DSError::InvalidName("Cycle"));', 'bail!(DSError::InvalidPacket("Compression loop"));', "C01 C02"),
 ("benign-more-suffixes", "compress.rs", "const MAX_SUFFIXES: usize = 32;", "const MAX_SUFFIXES: usize = 64;", "C06 C07 C17"),
 ("benign-fewer-suffixes", "compress.rs", "const MAX_SUFFIXES: usize = 32;", "const MAX_SUFFIXES: usize = 8;", "C06 C07 C05"),
 ("benign-shorter-suffix-limit", "compress.rs", "const MAX_SUFFIX_LEN: usize = 127;", "const MAX_SUFFIX_LEN: usize = 64;", "C06 C07"),
 ("benign-no-compression-of-rdata-mx", "compress.rs", "                let new_rdlen = 2 + Compress::copy_compressed_name(\n                    dict,\n                    compressed,\n                    packet,\n                    offset_rdata + DNS_RR_HEADER_SIZE + 2,\n                )\n                .name_len;", "                let new_rdlen = 2 + Compress::copy_uncompressed_name(\n                    compressed,\n                    packet,\n                    offset_rdata + DNS_RR_HEADER_SIZE + 2,\n                )\n                .name_len;", "C06"),
 ("benign-qdcount-check-order", "dns_sector.rs", "        if qdcount == 0 {\n            bail!(DSError::InvalidPacket(\n                \"A DNS packet should contain a question\",\n            ));\n        }\n        if qdcount > 1 {", "        if qdcount < 1 {\n            bail!(DSError::InvalidPacket(\n                \"No question\",\n            ));\n        }\n        if qdcount >= 2 {", "C01 C02"),
 ("benign-empty-packet-capacity", "parsed_packet.rs", "let mut name = Vec::with_capacity(DNS_MAX_HOSTNAME_LEN);\n        let uncompressed_name_result", "let mut name = Vec::with_capacity(64);\n        let uncompressed_name_result", "C04 C08"),
]

def sh(cmd, **kw):
    return subprocess.run(cmd, shell=True, capture_output=True, text=True, **kw)

def main():
    want = sys.argv[1:]
    rows = []
    assert sh('git -C /repo status --short').stdout.strip() == '', "/repo not clean"
    for name, f, old, new, checks in M:
        if want and not any(w in name for w in want):
            continue
        p = R + f
        s = open(p).read()
        if s.count(old) != 1:
            print(f"RESULT {name}: SKIPPED (pattern occurs {s.count(old)} times)"); rows.append((name, f, checks, 'pattern not found')); continue
        open(p, 'w').write(s.replace(old, new))
        try:
            t = sh('cd /repo && cargo test --offline 2>&1 | grep -E "^test result|^error" ')
            if 'error' in t.stdout or re.search(r'(\d+) failed', t.stdout) and any(int(x) > 0 for x in re.findall(r'(\d+) failed', t.stdout)):
                print(f"RESULT {name}: SKIPPED (does not build or the existing tests fail)"); rows.append((name, f, checks, 'seen by the existing tests / does not build')); continue
            caught = []
            for c in checks.split():
                r = sh(f'cd /verif && ./check {c} quick')
                sig = [l for l in r.stdout.splitlines() if l.startswith('--- ')]
                print(f"   {name} check {c} rc={r.returncode} {sig[0][:150] if sig else ''}")
                if r.returncode == 1:
                    caught.append(c)
                elif r.returncode != 0:
                    print(r.stdout[-600:])
            print(f"RESULT {name}: caught-by {' '.join(caught) if caught else 'NONE'} (ran {checks})")
            rows.append((name, f, checks, 'caught by ' + ' '.join(caught) if caught else ('not caught - equivalent mutant: ' + EQUIVALENT[name] if name in EQUIVALENT else 'NOT CAUGHT')))
        finally:
            sh('git -C /repo checkout -- .')
        sys.stdout.flush()
    for name, f, old, new, checks in BENIGN:
        if want and not any(w in name for w in want):
            continue
        p = R + f
        s = open(p).read()
        if s.count(old) != 1:
            print(f"RESULT {name}: SKIPPED (pattern occurs {s.count(old)} times)"); rows.append((name, f, checks, 'pattern not found')); continue
        open(p, 'w').write(s.replace(old, new))
        try:
            t = sh('cd /repo && cargo test --offline 2>&1 | grep -E "^test result|^error" ')
            if 'error' in t.stdout or any(int(x) > 0 for x in re.findall(r'(\d+) failed', t.stdout)):
                print(f"RESULT {name}: SKIPPED (does not build or the existing tests fail)"); rows.append((name, f, checks, 'does not build / tests fail')); continue
            alarms = []
            for c in checks.split():
                r = sh(f'cd /verif && ./check {c} quick')
                if r.returncode != 0:
                    alarms.append(c)
                    print(r.stdout[-800:])
            print(f"RESULT {name}: {'FALSE ALARM from ' + ' '.join(alarms) if alarms else 'silent (as required)'} (ran {checks})")
            rows.append((name, f, checks, 'FALSE ALARM ' + ' '.join(alarms) if alarms else 'silent, as required (behaviour-preserving variant)'))
        finally:
            sh('git -C /repo checkout -- .')
        sys.stdout.flush()
    if not want:
        out = ["# One-line mutant sweep", "", "`tools/sed_mutants.py`: each mutant is applied to /repo, must still build and pass the 46 tests, the listed quick checks are run, the mutant is reverted.", "",
               "| mutant | file | checks run | outcome |", "|---|---|---|---|"]
        for r in rows:
            out.append(f"| {r[0]} | {r[1]} | {r[2]} | {r[3]} |")
        open('/verif/notes/sed-mutants.md', 'w').write('\n'.join(out) + '\n')

main()

#!/usr/bin/env python3
"""Regenerates /verif/MANIFEST.json from the table below (keeps it schema-valid)."""
import json, subprocess, os
V = os.path.dirname(os.path.dirname(os.path.abspath(__file__)))
# id -> (technique, level text, level note, design section)
CHECKS = json.load(open(os.path.join(V, 'tools', 'checks.json')))
props = [json.loads(l)['id'] for l in open(os.path.join(V, 'properties.jsonl'))]
hook_commits = []
try:
    out = subprocess.run(['git', '-C', '/repo', 'log', '--format=%H %s'], capture_output=True, text=True).stdout
    hook_commits = [l.split()[0] for l in out.splitlines() if 'verif hooks' in l]
except Exception:
    pass
m = {
    "version": 1,
    "setup_cmd": "cd /verif && ./setup.sh",
    "hooks": {
        "guard": "cargo feature verif_hooks (default off)",
        "enable": "the harness crate /verif/harness depends on dnssector by path with features = [\"verif_hooks\"]; cargo rebuilds /repo's working tree on every check",
        "baseline_off_cmd": "cd /repo && cargo test --workspace --no-fail-fast --offline",
        "source_commits": hook_commits,
        "add_only": True,
    },
    "engines": [
        {"name": "dnsverif", "path": "harness/", "serves_properties": [c for c in props if c in CHECKS],
         "kind_free_text": "Rust harness: seeded multi-thread proptest runner over byte choice strings decoded into structured cases (shrinking, replay files), abstract message model + wire encoder, independent reference decoder/recogniser as oracle, exhaustive enumerators for finite sub-spaces"},
        {"name": "fuzz", "path": "fuzz/", "serves_properties": [c for c in props if c in CHECKS and CHECKS[c].get('fuzz')],
         "kind_free_text": "cargo-fuzz / libFuzzer targets (ASan) that run the same oracle functions on fuzzer-provided choice strings and raw packets; thorough tier only"},
    ],
    "checks": [],
    "not_applicable": [],
    "notes": "All checks: ./check <ID> quick|thorough. Exit 2 = inconclusive (harness build failure, watchdog, generator did not reach a required class); never a violation. Known findings: known_findings.json. Seeded mutants: seeded/.",
}
for p in props:
    if p in CHECKS:
        c = CHECKS[p]
        m["checks"].append({
            "property_id": p,
            "quick_cmd": f"./check {p} quick",
            "thorough_cmd": f"./check {p} thorough",
            "evidence_file": f"/verif/evidence/{p}.json",
            "replay_cmd_template": "harness/target/debug/dnsverif replay {path}",
            "engine": "dnsverif" + ("+fuzz" if c.get('fuzz') else ""),
            "level_claimed": {"category": "exploration", "text": c["text"], "design_ref": c["design"]},
            "level_note": c["note"],
            "technique": c["technique"],
        })
    else:
        m["not_applicable"].append({"property_id": p, "reason": "check not built yet in this session (work in progress; see DESIGN.md section 3 for the planned check)"})
json.dump(m, open(os.path.join(V, 'MANIFEST.json'), 'w'), indent=1)
print("checks:", [c["property_id"] for c in m["checks"]], "n/a:", [c["property_id"] for c in m["not_applicable"]])

#!/usr/bin/env python3
"""Writes notes/sensitivity.md (table of seeded changes and which check catches them) from seeded/*/meta.json."""
import json, glob, os
rows = []
for d in sorted(glob.glob('/verif/seeded/*')):
    m = json.load(open(os.path.join(d, 'meta.json')))
    what = m['what_and_what_it_needs_to_manifest'].replace('\n', ' ')
    what = (what[:260] + '...') if len(what) > 260 else what
    rows.append((os.path.basename(d), m['breaks_property'], what, '; '.join(m['outcome'])))
out = ["# Seeded changes and which check catches them", "",
       "Each change was written by a fresh sub-agent that saw only the text of one property and its own scratch worktree of /repo",
       "(nothing from /verif), confirmed with `tools/try_mutant.sh` (46 existing tests still pass, the agent's demonstration fails with",
       "the change and passes without), then applied to /repo, checked with `./check <ID> quick` and reverted.", "",
       "| seeded | property | change / what it needs to manifest | outcome (quick tier) |", "|---|---|---|---|"]
for r in rows:
    out.append(f"| {r[0]} | {r[1]} | {r[2].replace('|', '/')} | {r[3].replace('|', '/')} |")
open('/verif/notes/sensitivity.md', 'w').write('\n'.join(out) + '\n')
print(len(rows), "seeded changes")

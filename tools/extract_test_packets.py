#!/usr/bin/env python3
"""Extracts the byte-array packets of /repo/tests/test_dnssector.rs with the verdict each test asserts.
Output: harness/test_packets.txt, lines "<test name> <ok|err> <hex>" (regression inputs for C01/C02)."""
import re
src = open('/repo/tests/test_dnssector.rs').read()
src = re.sub(r'//[^\n]*', '', src)

def elems(inner):
    inner = inner.strip()
    data = []
    if ';' in inner and ',' not in inner:
        v, n = inner.split(';')
        return [int(v.strip(), 0)] * int(n.strip())
    for tok in inner.replace('\n', ' ').split(','):
        tok = tok.strip()
        if not tok:
            continue
        bm = re.fullmatch(r"b'(\\?.)'", tok)
        if bm:
            c = bm.group(1)
            data.append(ord(c) if len(c) == 1 else {'\\n': 10, '\\0': 0}.get(c, ord(c[-1])))
        else:
            tok = re.sub(r'(u8|_u8)$', '', tok)
            data.append(int(tok, 0))
    return data

out = []
for m in re.finditer(r'fn (test_\w+)\(\) \{(.*?)\n    \}', src, re.S):
    name, body = m.group(1), m.group(2)
    vm = re.search(r'= vec!\[(.*?)\];', body, re.S)
    if not vm:
        continue
    data = elems(vm.group(1))
    for em in re.finditer(r'\.extend\(vec!\[(.*?)\]\);', body, re.S):
        data += elems(em.group(1))
    verdict = 'err' if 'is_err()' in body else 'ok'
    out.append(f"{name} {verdict} {bytes(data).hex()}")
open('/verif/harness/test_packets.txt', 'w').write('\n'.join(out) + '\n')
for l in out:
    print(l[:110])
